// fvc-bounded: pkg=pkg/utils/matrix run=TestFvcBoundedMatrixProduct quick=3 thorough=4
// fvc-what: matrix.GenerateMatrixCombinations (with NumCombinations, GetKeys, IndexMatrix) is the exact cartesian product, in lexicographic order of the sorted keys, for every matrix with at most FVC_BOUND keys and at most FVC_BOUND values per key drawn without repetition from a pool of values that are prefixes/permutations of each other; compared with a recursive reference product
//
// BOUNDED STAND-IN (labelled bounded, never counted as proved): the invariant of the odometer loop is a mixed-radix
// identity over a symbolic number of symbolic radices (non-linear), outside what the SMT back ends discharge.
// Injected into the real package with `go test -overlay`; nothing is written to the repository.
package matrix_test

import (
	"fmt"
	"os"
	"reflect"
	"sort"
	"strconv"
	"testing"

	"github.com/furiko-io/furiko/pkg/utils/matrix"
)

func fvcRefProduct(m matrix.Matrix) []matrix.Combination {
	keys := make([]string, 0, len(m))
	for k := range m {
		keys = append(keys, k)
	}
	sort.Strings(keys)
	if len(keys) == 0 {
		return nil
	}
	out := []matrix.Combination{{}}
	for _, k := range keys {
		var next []matrix.Combination
		for _, c := range out {
			for _, v := range m[k] {
				n := matrix.Combination{}
				for kk, vv := range c {
					n[kk] = vv
				}
				n[k] = v
				next = append(next, n)
			}
		}
		out = next
	}
	return out
}

// all sequences without repetition (length 1..max) over pool
func fvcSeqs(pool []string, max int) [][]string {
	var out [][]string
	var rec func(cur []string, used int)
	rec = func(cur []string, used int) {
		if len(cur) > 0 {
			out = append(out, append([]string(nil), cur...))
		}
		if len(cur) == max {
			return
		}
		for i, p := range pool {
			if used&(1<<i) == 0 {
				rec(append(cur, p), used|1<<i)
			}
		}
	}
	rec(nil, 0)
	return out
}

func TestFvcBoundedMatrixProduct(t *testing.T) {
	bound, _ := strconv.Atoi(os.Getenv("FVC_BOUND"))
	if bound <= 0 {
		bound = 3
	}
	keyPool := []string{"a", "ab", "b", "ba"}[:bound]
	valPool := []string{"x", "xy", "yx", "y"}[:bound]
	maxVals := bound
	if bound >= 4 {
		maxVals = 3 // 4 keys x up to 3 values each (of 4), and (below) 3 keys x up to 4 values
	}
	cases, distinct := 0, 0
	seen := map[string]bool{}
	check := func(m matrix.Matrix) {
		cases++
		want := fvcRefProduct(m)
		got := matrix.GenerateMatrixCombinations(m)
		if len(got) != len(want) {
			t.Fatalf("matrix %v: %d combinations, want %d", m, len(got), len(want))
		}
		uniq := map[string]bool{}
		for i := range want {
			if !reflect.DeepEqual(got[i], want[i]) {
				t.Fatalf("matrix %v: combination %d is %v, want %v", m, i, got[i], want[i])
			}
			uniq[fmt.Sprint(got[i])] = true
		}
		if len(uniq) != len(want) {
			t.Fatalf("matrix %v: combinations are not pairwise distinct", m)
		}
		if len(want) > 1 {
			shape := ""
			for _, k := range keyPool {
				shape += fmt.Sprintf("%d,", len(m[k]))
			}
			if !seen[shape] {
				seen[shape] = true
			}
			distinct++
		}
	}
	var rec func(ki int, m matrix.Matrix, seqs [][]string)
	rec = func(ki int, m matrix.Matrix, seqs [][]string) {
		if ki == len(keyPool) {
			if len(m) > 0 {
				check(m)
			}
			return
		}
		rec(ki+1, m, seqs) // key absent
		for _, s := range seqs {
			m[keyPool[ki]] = s
			rec(ki+1, m, seqs)
		}
		delete(m, keyPool[ki])
	}
	rec(0, matrix.Matrix{}, fvcSeqs(valPool, maxVals))
	if bound >= 4 {
		keyPool = keyPool[:3]
		rec(0, matrix.Matrix{}, fvcSeqs(valPool, 4))
	}
	fmt.Printf("BOUNDED-CASES %d DISTINCT %d (shapes %d)\n", cases, distinct, len(seen))
}
