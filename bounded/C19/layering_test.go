// fvc-bounded: pkg=pkg/runtime/configloader run=TestFvcBoundedLayering quick=1 thorough=2
// fvc-what: ConfigManager.LoadAndUnmarshalConfig layers three sources field by field: for each of the three configuration kinds and each of their fields, and for every assignment of {not set, zero value, non-zero value} to the three layers (lowest to highest priority), the decoded field equals the value of the highest-priority layer that sets it (also when that value is zero, false or empty) and is unset when no layer sets it; FVC_BOUND=2 additionally varies a second field at the same time; then a failing layer makes the manager return the last good value and it recovers when the layer is fixed
//
// BOUNDED STAND-IN (labelled bounded, never counted as proved): the merge (mergo) and the decoding (mapstructure) are
// reflection-based dependencies that fvc models only as "writes the destination map" (see the C19 level note).
package configloader_test

import (
	"context"
	"errors"
	"fmt"
	"os"
	"reflect"
	"strconv"
	"testing"

	configv1alpha1 "github.com/furiko-io/furiko/apis/config/v1alpha1"
	"github.com/furiko-io/furiko/pkg/runtime/configloader"
)

type fvcLoader struct {
	name string
	data map[configv1alpha1.ConfigName]configloader.Config
	fail bool
}

func (l *fvcLoader) Name() string                { return l.name }
func (l *fvcLoader) Start(context.Context) error { return nil }
func (l *fvcLoader) Load(n configv1alpha1.ConfigName) (configloader.Config, error) {
	if l.fail {
		return nil, errors.New("source unreadable")
	}
	return l.data[n], nil
}

type fvcField struct {
	json          string
	goName        string
	zero, nonzero interface{}
}

func fvcGet(out interface{}, goName string) interface{} {
	f := reflect.ValueOf(out).Elem().FieldByName(goName)
	if f.Kind() == reflect.Ptr {
		if f.IsNil() {
			return nil
		}
		return f.Elem().Interface()
	}
	return f.Interface()
}

func TestFvcBoundedLayering(t *testing.T) {
	bound, _ := strconv.Atoi(os.Getenv("FVC_BOUND"))
	if bound <= 0 {
		bound = 1
	}
	kinds := []struct {
		name   configv1alpha1.ConfigName
		mk     func() interface{}
		fields []fvcField
	}{
		{configv1alpha1.JobExecutionConfigName, func() interface{} { return &configv1alpha1.JobExecutionConfig{} }, []fvcField{
			{"defaultTTLSecondsAfterFinished", "DefaultTTLSecondsAfterFinished", int64(0), int64(3600)},
			{"defaultPendingTimeoutSeconds", "DefaultPendingTimeoutSeconds", int64(0), int64(900)},
			{"forceDeleteTaskTimeoutSeconds", "ForceDeleteTaskTimeoutSeconds", int64(0), int64(120)}}},
		{configv1alpha1.JobConfigExecutionConfigName, func() interface{} { return &configv1alpha1.JobConfigExecutionConfig{} }, []fvcField{
			{"maxEnqueuedJobs", "MaxEnqueuedJobs", int64(0), int64(20)}}},
		{configv1alpha1.CronExecutionConfigName, func() interface{} { return &configv1alpha1.CronExecutionConfig{} }, []fvcField{
			{"cronFormat", "CronFormat", "", "quartz"},
			{"cronHashNames", "CronHashNames", false, true},
			{"cronHashSecondsByDefault", "CronHashSecondsByDefault", false, true},
			{"cronHashFields", "CronHashFields", false, true},
			{"defaultTimezone", "DefaultTimezone", "", "Asia/Singapore"},
			{"maxMissedSchedules", "MaxMissedSchedules", int64(0), int64(5)},
			{"maxDowntimeThresholdSeconds", "MaxDowntimeThresholdSeconds", int64(0), int64(300)}}},
	}
	cases, nontrivial := 0, 0
	for _, kind := range kinds {
		for fi, f := range kind.fields {
			seconds := []int{-1}
			if bound >= 2 {
				seconds = nil
				for gi := range kind.fields {
					if gi != fi {
						seconds = append(seconds, gi)
					}
				}
				if len(seconds) == 0 {
					seconds = []int{-1}
				}
			}
			for _, gi := range seconds {
				for combo := 0; combo < 27; combo++ {
					for combo2 := 0; combo2 < 27; combo2++ {
						if gi < 0 && combo2 > 0 {
							break
						}
						loaders := make([]*fvcLoader, 3)
						var want, want2 interface{}
						set, set2 := false, false
						c, c2 := combo, combo2
						for layer := 0; layer < 3; layer++ {
							cfg := configloader.Config{}
							switch c % 3 {
							case 1:
								cfg[f.json], want, set = f.zero, f.zero, true
							case 2:
								cfg[f.json], want, set = f.nonzero, f.nonzero, true
							}
							c /= 3
							if gi >= 0 {
								g := kind.fields[gi]
								switch c2 % 3 {
								case 1:
									cfg[g.json], want2, set2 = g.zero, g.zero, true
								case 2:
									cfg[g.json], want2, set2 = g.nonzero, g.nonzero, true
								}
								c2 /= 3
							}
							loaders[layer] = &fvcLoader{name: fmt.Sprintf("layer%d", layer), data: map[configv1alpha1.ConfigName]configloader.Config{kind.name: cfg}}
						}
						mgr := configloader.NewConfigManager()
						mgr.AddConfigLoaders(loaders[0], loaders[1], loaders[2])
						if err := mgr.Start(context.Background()); err != nil {
							t.Fatal(err)
						}
						out := kind.mk()
						if err := mgr.LoadAndUnmarshalConfig(kind.name, out); err != nil {
							t.Fatalf("%s.%s combo %d: %v", kind.name, f.json, combo, err)
						}
						cases++
						check := func(ff fvcField, w interface{}, isSet bool, o interface{}, when string) {
							got := fvcGet(o, ff.goName)
							isPtr := reflect.ValueOf(o).Elem().FieldByName(ff.goName).Kind() == reflect.Ptr
							if !isSet {
								if isPtr && got != nil || !isPtr && !reflect.DeepEqual(got, ff.zero) {
									t.Fatalf("%s.%s (%s, combos %d/%d): no layer sets it but got %v", kind.name, ff.json, when, combo, combo2, got)
								}
								return
							}
							if !reflect.DeepEqual(got, w) {
								t.Fatalf("%s.%s (%s, combos %d/%d, lowest layer first, 0 unset 1 zero 2 non-zero): got %v, want %v from the highest layer that sets it", kind.name, ff.json, when, combo, combo2, got, w)
							}
						}
						check(f, want, set, out, "fresh load")
						if gi >= 0 {
							check(kind.fields[gi], want2, set2, out, "fresh load")
						}
						if set && combo%3 != 0 || combo >= 3 {
							nontrivial++
						}
						// degradation: the highest layer becomes unreadable -> last good value, no error; fixed -> recovers
						if combo2 == 0 {
							loaders[2].fail = true
							out2 := kind.mk()
							if err := mgr.LoadAndUnmarshalConfig(kind.name, out2); err != nil {
								t.Fatalf("%s.%s: unreadable layer after a good load returned an error: %v", kind.name, f.json, err)
							}
							check(f, want, set, out2, "last known good")
							loaders[2].fail = false
							out3 := kind.mk()
							if err := mgr.LoadAndUnmarshalConfig(kind.name, out3); err != nil {
								t.Fatal(err)
							}
							check(f, want, set, out3, "recovered")
						}
					}
				}
			}
		}
	}
	fmt.Printf("BOUNDED-CASES %d DISTINCT %d\n", cases, nontrivial)
}
