// fvc-bounded: pkg=pkg/execution/controllers/croncontroller run=TestFvcBoundedKeyRoundTrip quick=5 thorough=7
// fvc-what: croncontroller.SplitJobConfigKeyName(JoinJobConfigKeyName(key, t)) returns (key, t) for every namespace/name key over the alphabet {a . - 1 /} up to FVC_BOUND characters (names with dots and digits included) and a set of boundary schedule times (negative, zero, positive, year 9999); distinct (key, second) pairs give distinct joined keys
//
// BOUNDED STAND-IN (labelled bounded, never counted as proved): string splitting (strings.Split / Join) is outside the
// verifier's string model; the deductive part of C02 proves the Job name is a function of (JobConfig name, Unix second).
package croncontroller_test

import (
	"fmt"
	"os"
	"strconv"
	"testing"
	"time"

	"github.com/furiko-io/furiko/pkg/execution/controllers/croncontroller"
)

func TestFvcBoundedKeyRoundTrip(t *testing.T) {
	bound, _ := strconv.Atoi(os.Getenv("FVC_BOUND"))
	if bound <= 0 {
		bound = 5
	}
	times := []int64{-62135596800, -1, 0, 1, 59, 1650645000, 253402300799}
	alphabet := []byte("a.-1/")
	cases, nontrivial := 0, 0
	seen := map[string]string{}
	var rec func(cur []byte)
	rec = func(cur []byte) {
		if len(cur) > 0 {
			key := string(cur)
			for _, sec := range times {
				ts := time.Unix(sec, 0)
				joined := croncontroller.JoinJobConfigKeyName(key, ts)
				name, got, err := croncontroller.SplitJobConfigKeyName(joined)
				cases++
				if err != nil || name != key || !got.Equal(ts) {
					t.Fatalf("round trip of (%q, %d) through %q gave (%q, %v, %v)", key, sec, joined, name, got, err)
				}
				id := fmt.Sprintf("%s|%d", key, sec)
				if prev, ok := seen[joined]; ok && prev != id {
					t.Fatalf("two different (key, second) pairs share the joined key %q: %s and %s", joined, prev, id)
				}
				seen[joined] = id
				for _, c := range cur {
					if c == '.' || c == '1' {
						nontrivial++
						break
					}
				}
			}
		}
		if len(cur) == bound {
			return
		}
		for _, c := range alphabet {
			rec(append(cur, c))
		}
	}
	rec(nil)
	fmt.Printf("BOUNDED-CASES %d DISTINCT %d\n", cases, nontrivial)
}
