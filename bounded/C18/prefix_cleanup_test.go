// fvc-bounded: pkg=pkg/core/options run=TestFvcBoundedPrefixCleanup quick=5 thorough=7
// fvc-what: options.SubstituteEmptyStringForPrefixes removes exactly the ${<prefix>.<non-empty text without '}'>} occurrences of the reserved prefixes and leaves all other text untouched, for every template string made of at most FVC_BOUND tokens from {"${", "}", ".", "$", "{", "job", "jobx", "option", "task", "x"}, against a hand-written scanner
//
// BOUNDED STAND-IN (labelled bounded, never counted as proved): the function is a regular-expression replacement
// (regexp.MustCompile + ReplaceAllString); strings and regular expressions are uninterpreted in the verifier.
package options_test

import (
	"fmt"
	"os"
	"strconv"
	"strings"
	"testing"

	"github.com/furiko-io/furiko/pkg/core/options"
)

// reference: scan left to right; at each position, if "${" + p + "." + one or more non-'}' characters + "}" starts here
// for some prefix p (leftmost match, each prefix applied in turn like the implementation), drop it.
func fvcRefCleanup(target string, prefixes []string) string {
	for _, prefix := range prefixes {
		p := "${" + strings.TrimSuffix(prefix, ".") + "."
		var out strings.Builder
		i := 0
		for i < len(target) {
			if strings.HasPrefix(target[i:], p) {
				j := i + len(p)
				k := j
				for k < len(target) && target[k] != '}' {
					k++
				}
				if k < len(target) && k > j {
					i = k + 1
					continue
				}
			}
			out.WriteByte(target[i])
			i++
		}
		target = out.String()
	}
	return target
}

func TestFvcBoundedPrefixCleanup(t *testing.T) {
	bound, _ := strconv.Atoi(os.Getenv("FVC_BOUND"))
	prefixes := []string{"jobconfig.", "job.", "task.", "option."}
	tokens := []string{"${", "}", ".", "$", "{", "job", "jobx", "option", "task", "x"}
	if bound <= 0 {
		bound = 5
	}
	cases, distinct := 0, 0
	check := func(s string) {
		cases++
		want := fvcRefCleanup(s, prefixes)
		got := options.SubstituteEmptyStringForPrefixes(s, prefixes)
		if got != want {
			t.Fatalf("SubstituteEmptyStringForPrefixes(%q) = %q, want %q", s, got, want)
		}
		if got != s {
			distinct++
		}
	}
	var rec func(cur string, n int)
	rec = func(cur string, n int) {
		check(cur)
		if n == 0 {
			return
		}
		for _, tk := range tokens {
			rec(cur+tk, n-1)
		}
	}
	rec("", bound)
	fmt.Printf("BOUNDED-CASES %d DISTINCT %d\n", cases, distinct)
}
