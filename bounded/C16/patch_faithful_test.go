// fvc-bounded: pkg=pkg/execution/webhooks/jobmutatingwebhook run=TestFvcBoundedPatchFaithful quick=1 thorough=2
// fvc-what: jobmutatingwebhook.Webhook.Handle is patch-faithful: for every generated Job admission request (create and update; every subset of 9 optional fields present or absent; FVC_BOUND=2 adds parallelism variants), applying the JSON patch of the response to the submitted object gives exactly the object that mutation.JobPatcher produces from the decoded request, the patch is absent exactly when nothing changes, and a second pass over the patched object changes nothing (idempotence)
//
// BOUNDED STAND-IN (labelled bounded, never counted as proved): patch creation and application are behaviours of
// gomodules.xyz/jsonpatch and encoding/json (reflection), outside the verifier's subset.
package jobmutatingwebhook_test

import (
	"context"
	"encoding/json"
	"fmt"
	"os"
	"reflect"
	"strconv"
	"testing"

	jsonpatch "github.com/evanphx/json-patch"
	admissionv1 "k8s.io/api/admission/v1"
	corev1 "k8s.io/api/core/v1"
	metav1 "k8s.io/apimachinery/pkg/apis/meta/v1"
	"k8s.io/apimachinery/pkg/runtime"
	"k8s.io/utils/pointer"

	execution "github.com/furiko-io/furiko/apis/execution/v1alpha1"
	"github.com/furiko-io/furiko/pkg/execution/mutation"
	"github.com/furiko-io/furiko/pkg/execution/webhooks/jobmutatingwebhook"
	"github.com/furiko-io/furiko/pkg/runtime/controllercontext/mock"
)

func fvcNorm(t *testing.T, raw []byte) interface{} {
	var v interface{}
	if err := json.Unmarshal(raw, &v); err != nil {
		t.Fatalf("bad json: %v", err)
	}
	return v
}

func TestFvcBoundedPatchFaithful(t *testing.T) {
	bound, _ := strconv.Atoi(os.Getenv("FVC_BOUND"))
	if bound <= 0 {
		bound = 1
	}
	ctrlContext := mock.NewContext()
	if err := ctrlContext.Start(context.Background()); err != nil {
		t.Fatal(err)
	}
	hook, err := jobmutatingwebhook.NewWebhook(ctrlContext)
	if err != nil {
		t.Fatal(err)
	}
	gvk := metav1.GroupVersionKind{Group: execution.GVKJob.Group, Version: execution.GVKJob.Version, Kind: execution.GVKJob.Kind}
	cases, changed := 0, 0
	nbits := 9
	parVariants := 1
	if bound >= 2 {
		parVariants = 4
	}
	for mask := 0; mask < 1<<nbits; mask++ {
		for pv := 0; pv < parVariants; pv++ {
			for _, op := range []admissionv1.Operation{admissionv1.Create, admissionv1.Update} {
				rj := &execution.Job{
					TypeMeta:   metav1.TypeMeta{Kind: execution.KindJob, APIVersion: execution.GroupVersion.String()},
					ObjectMeta: metav1.ObjectMeta{Name: "job", Namespace: "ns"},
				}
				has := func(i int) bool { return mask&(1<<i) != 0 }
				if has(0) {
					rj.Spec.Type = execution.JobTypeScheduled
				}
				if has(1) {
					rj.Spec.TTLSecondsAfterFinished = pointer.Int64(0)
				}
				if has(2) {
					rj.Spec.Template = &execution.JobTemplate{}
				}
				if has(3) && rj.Spec.Template != nil {
					rj.Spec.Template.MaxAttempts = pointer.Int64(3)
				}
				if has(4) && rj.Spec.Template != nil {
					rj.Spec.Template.TaskTemplate.Pod = &execution.PodTemplateSpec{Spec: corev1.PodSpec{Containers: []corev1.Container{{Name: "c", Image: "i"}}}}
				}
				if has(5) && rj.Spec.Template != nil && rj.Spec.Template.TaskTemplate.Pod != nil {
					rj.Spec.Template.TaskTemplate.Pod.Spec.RestartPolicy = corev1.RestartPolicyOnFailure
				}
				if has(6) {
					rj.Finalizers = []string{"example.com/other"}
				}
				if has(7) {
					rj.Spec.Substitutions = map[string]string{"option.a": "", "x": "0"}
				}
				if has(8) {
					rj.Labels = map[string]string{"a": ""}
					rj.Annotations = map[string]string{}
				}
				if rj.Spec.Template != nil {
					switch pv {
					case 1:
						rj.Spec.Template.Parallelism = &execution.ParallelismSpec{WithCount: pointer.Int64(2)}
					case 2:
						rj.Spec.Template.Parallelism = &execution.ParallelismSpec{WithKeys: []string{"a", "b"}, CompletionStrategy: execution.AnySuccessful}
					case 3:
						rj.Spec.Template.Parallelism = &execution.ParallelismSpec{WithMatrix: map[string][]string{"k": {"v"}}}
					}
				} else if pv > 0 {
					continue
				}
				raw, err := json.Marshal(rj)
				if err != nil {
					t.Fatal(err)
				}
				req := &admissionv1.AdmissionRequest{Kind: gvk, Operation: op, Object: runtime.RawExtension{Raw: raw}}
				if op == admissionv1.Update {
					req.OldObject = runtime.RawExtension{Raw: raw}
				}
				resp, err := hook.Handle(context.Background(), req)
				if err != nil {
					t.Fatalf("mask=%b op=%s: %v", mask, op, err)
				}
				cases++
				// what the mutation itself produces from the decoded request
				decoded := &execution.Job{}
				if err := json.Unmarshal(raw, decoded); err != nil {
					t.Fatal(err)
				}
				var old *execution.Job
				if op == admissionv1.Update {
					old = decoded.DeepCopy()
				}
				want := decoded.DeepCopy()
				res := mutation.NewJobPatcher(ctrlContext).Patch(op, old, want)
				if len(res.Errors) > 0 {
					if resp.Allowed {
						t.Fatalf("mask=%b op=%s: mutation reports errors but the response allows the request", mask, op)
					}
					continue
				}
				wantRaw, _ := json.Marshal(want)
				got := raw
				if len(resp.Patch) > 0 {
					p, err := jsonpatch.DecodePatch(resp.Patch)
					if err != nil {
						t.Fatalf("mask=%b op=%s: undecodable patch %s: %v", mask, op, resp.Patch, err)
					}
					got, err = p.Apply(raw)
					if err != nil {
						t.Fatalf("mask=%b op=%s: patch %s does not apply to %s: %v", mask, op, resp.Patch, raw, err)
					}
					changed++
				}
				if !reflect.DeepEqual(fvcNorm(t, got), fvcNorm(t, wantRaw)) {
					t.Fatalf("mask=%b pv=%d op=%s: patched object differs from the mutated object\nsubmitted: %s\npatch:     %s\npatched:   %s\nmutated:   %s", mask, pv, op, raw, resp.Patch, got, wantRaw)
				}
				if (len(resp.Patch) == 0) != reflect.DeepEqual(fvcNorm(t, raw), fvcNorm(t, wantRaw)) {
					t.Fatalf("mask=%b op=%s: patch present=%v but changed=%v", mask, op, len(resp.Patch) > 0, !reflect.DeepEqual(fvcNorm(t, raw), fvcNorm(t, wantRaw)))
				}
				// idempotence: submitting the patched object again changes nothing
				req2 := &admissionv1.AdmissionRequest{Kind: gvk, Operation: op, Object: runtime.RawExtension{Raw: got}, OldObject: req.OldObject}
				resp2, err := hook.Handle(context.Background(), req2)
				if err != nil {
					t.Fatalf("second pass: %v", err)
				}
				if len(resp2.Patch) > 0 {
					t.Fatalf("mask=%b pv=%d op=%s: defaulting is not idempotent: second pass patches %s", mask, pv, op, resp2.Patch)
				}
			}
		}
	}
	fmt.Printf("BOUNDED-CASES %d DISTINCT %d\n", cases, changed)
}
