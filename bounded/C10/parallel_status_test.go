// fvc-bounded: pkg=pkg/execution/util/parallel run=TestFvcBoundedParallelStatus quick=3 thorough=4
// fvc-what: parallel.GetParallelStatus and GetParallelTaskSummary agree with the contract fvc ASSUMES for them (group-by of the task list by index hash; per-index state and result; Complete / Successful from the completion strategy), for every Job with parallelism none / withCount 1..3, both strategies, maxAttempts 1..2, and every list of up to FVC_BOUND task records over (index, finished, running, succeeded)
//
// BOUNDED STAND-IN (labelled bounded, never counted as proved): the group-by loops build a map of slices keyed by the
// index hash; their invariant is stated in fvc only as an assumed contract (zz_contracts_verif.go: GetParallelStatus).
package parallel_test

import (
	"fmt"
	"os"
	"strconv"
	"testing"
	"time"

	metav1 "k8s.io/apimachinery/pkg/apis/meta/v1"
	"k8s.io/utils/pointer"

	execution "github.com/furiko-io/furiko/apis/execution/v1alpha1"
	"github.com/furiko-io/furiko/pkg/execution/util/parallel"
)

type fvcTask struct {
	idx                          int // -1: no parallel index recorded
	finished, running, succeeded bool
}

func fvcHash(i int) string {
	h, err := parallel.HashIndex(execution.ParallelIndex{IndexNumber: pointer.Int64(int64(i))})
	if err != nil {
		panic(err)
	}
	return h
}

func TestFvcBoundedParallelStatus(t *testing.T) {
	bound, _ := strconv.Atoi(os.Getenv("FVC_BOUND"))
	if bound <= 0 {
		bound = 3
	}
	ts0 := metav1.NewTime(time.Unix(1000, 0))
	cases, nontrivial := 0, 0
	var kinds []fvcTask
	for idx := -1; idx < 3; idx++ {
		for _, f := range []bool{false, true} {
			for _, r := range []bool{false, true} {
				for _, s := range []bool{false, true} {
					if s && !f {
						continue // a succeeded task is finished
					}
					kinds = append(kinds, fvcTask{idx, f, r, s})
				}
			}
		}
	}
	check := func(count int, strategy execution.ParallelCompletionStrategy, maxAttempts int64, list []fvcTask) {
		job := &execution.Job{Spec: execution.JobSpec{Template: &execution.JobTemplate{MaxAttempts: &maxAttempts}}}
		n := 1
		if count > 0 {
			job.Spec.Template.Parallelism = &execution.ParallelismSpec{WithCount: pointer.Int64(int64(count)), CompletionStrategy: strategy}
			n = count
		}
		var refs []execution.TaskRef
		for k, tk := range list {
			ref := execution.TaskRef{Name: fmt.Sprintf("t%d", k)}
			if tk.idx >= 0 {
				ref.ParallelIndex = &execution.ParallelIndex{IndexNumber: pointer.Int64(int64(tk.idx))}
			}
			if tk.running {
				ref.RunningTimestamp = &ts0
			}
			if tk.finished {
				ref.FinishTimestamp = &ts0
			}
			if tk.succeeded {
				ref.Status.Result = execution.TaskSucceeded
			}
			refs = append(refs, ref)
		}
		cases++
		got, err := parallel.GetParallelStatus(job, refs)
		if err != nil {
			t.Fatalf("unexpected error: %v", err)
		}
		sum, err := parallel.GetParallelTaskSummary(job, refs)
		if err != nil {
			t.Fatalf("unexpected error: %v", err)
		}
		if len(got.Indexes) != n {
			t.Fatalf("count=%d tasks=%v: %d index statuses, want %d", count, list, len(got.Indexes), n)
		}
		allSucc, anySucc, anyExh, allExh := true, false, false, true
		for i := 0; i < n; i++ {
			h := fvcHash(i)
			has, succ, allFin, anyRun := false, false, true, false
			fin := int64(0)
			for _, tk := range list {
				ti := tk.idx
				if ti < 0 {
					ti = 0
				}
				if fvcHash(ti) != h {
					continue
				}
				has = true
				if tk.succeeded {
					succ = true
				}
				if tk.finished {
					fin++
				} else {
					allFin = false
					if tk.running {
						anyRun = true
					}
				}
			}
			exhausted := !succ && fin >= maxAttempts
			wantResult := execution.TaskResult("")
			if succ {
				wantResult = execution.TaskSucceeded
			} else if exhausted {
				wantResult = execution.TaskFailed
			}
			var wantState execution.IndexState
			switch {
			case !has:
				wantState = execution.IndexNotCreated
			case allFin && !succ && !exhausted:
				wantState = execution.IndexRetryBackoff
			case allFin:
				wantState = execution.IndexTerminated
			case anyRun:
				wantState = execution.IndexRunning
			default:
				wantState = execution.IndexStarting
			}
			ix := got.Indexes[i]
			if ix.Hash != h || ix.State != wantState || ix.Result != wantResult {
				t.Fatalf("count=%d strategy=%q max=%d tasks=%+v index %d: got hash=%s state=%s result=%q, want hash=%s state=%s result=%q",
					count, strategy, maxAttempts, list, i, ix.Hash, ix.State, ix.Result, h, wantState, wantResult)
			}
			allSucc = allSucc && succ
			anySucc = anySucc || succ
			anyExh = anyExh || exhausted
			allExh = allExh && exhausted
		}
		satisfied, impossible := allSucc, anyExh
		if count > 0 && strategy == execution.AnySuccessful {
			satisfied, impossible = anySucc, allExh
		}
		wantComplete := satisfied || impossible
		for _, s := range []execution.ParallelStatusSummary{got.ParallelStatusSummary, sum} {
			if s.Complete != wantComplete || (wantComplete && (s.Successful == nil || *s.Successful != satisfied)) || (!wantComplete && s.Successful != nil) {
				t.Fatalf("count=%d strategy=%q max=%d tasks=%+v: complete=%v successful=%v, want complete=%v successful=%v", count, strategy, maxAttempts, list, s.Complete, s.Successful, wantComplete, satisfied)
			}
		}
		if len(list) >= 2 {
			nontrivial++
		}
	}
	var rec func(list []fvcTask, count int, strategy execution.ParallelCompletionStrategy, maxAttempts int64)
	rec = func(list []fvcTask, count int, strategy execution.ParallelCompletionStrategy, maxAttempts int64) {
		check(count, strategy, maxAttempts, list)
		if len(list) == bound {
			return
		}
		for _, k := range kinds {
			if k.idx >= count && !(count == 0 && k.idx <= 0) {
				continue // tasks belong to an index of the Job (assumption shared with the contract)
			}
			rec(append(append([]fvcTask(nil), list...), k), count, strategy, maxAttempts)
		}
	}
	for count := 0; count <= 3; count++ {
		for _, st := range []execution.ParallelCompletionStrategy{execution.AllSuccessful, execution.AnySuccessful} {
			if count == 0 && st == execution.AnySuccessful {
				continue
			}
			for _, ma := range []int64{1, 2} {
				rec(nil, count, st, ma)
			}
		}
	}
	fmt.Printf("BOUNDED-CASES %d DISTINCT %d\n", cases, nontrivial)
}
