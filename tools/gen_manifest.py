#!/usr/bin/env python3
"""Generates /verif/MANIFEST.json from tools/claims.json (kept by hand) and the hook commits in /repo."""
import json, subprocess, os
V = '/verif'
claims = json.load(open(f'{V}/tools/claims.json'))
props = [json.loads(l) for l in open(f'{V}/properties.jsonl')]
hooks = subprocess.run(['git', '-C', '/repo', 'log', '--format=%H %s', '010b678..HEAD'], capture_output=True, text=True).stdout.strip().splitlines()
hook_commits = [l.split()[0] for l in hooks if 'verif hook' in l]
checks, na = [], []
for p in props:
    pid = p['id']
    c = claims.get(pid)
    if c and c.get('claimed'):
        checks.append({
            'property_id': pid,
            'quick_cmd': f'./check {pid} --tier quick',
            'thorough_cmd': f'./check {pid} --tier thorough',
            'evidence_file': f'/verif/evidence/{pid}.json',
            'replay_cmd_template': './check --replay {path}',
            'engine': 'fvc',
            'level_claimed': {'category': 'proof', 'text': c['text'], 'design_ref': f'DESIGN.md Part II {pid}'},
            'level_note': c['note'],
            'technique': 'contract-based deductive verification: weakest-precondition VCs generated from go/ssa of /repo, contracts in //go:build verif comment files, discharged by z3/cvc5',
        })
    else:
        na.append({'property_id': pid, 'reason': (c or {}).get('reason', 'not yet under contract in this build; planned per DESIGN.md Part II')})
m = {
    'version': 1,
    'setup_cmd': 'cd /verif/fvc && GOFLAGS=-mod=mod GOPROXY=off GOSUMDB=off GOTOOLCHAIN=local go build -o ../bin/fvc . && cd /repo && GOFLAGS=-mod=mod GOPROXY=off GOSUMDB=off GOTOOLCHAIN=local go build -tags verif ./pkg/... ./apis/...',
    'hooks': {
        'guard': 'verif',
        'enable': 'go build -tags verif (fvc loads /repo with BuildFlags -tags=verif; the tag only adds comment-only zz_contracts_verif.go files)',
        'baseline_off_cmd': "cd /repo && go test -mod=mod -json -vet=off -count=1 -timeout 25m ./...",
        'source_commits': hook_commits,
        'add_only': True,
    },
    'engines': [{'name': 'fvc', 'path': '/verif/fvc', 'serves_properties': [c['property_id'] for c in checks],
                 'kind_free_text': 'self-built deductive verifier for Go: go/packages + go/ssa (NaiveForm) symbolic execution with loop invariants and modular call contracts, SMT-LIB VCs, z3-new/z3/cvc5 portfolio'}],
    'checks': checks,
    'not_applicable': na,
    'notes': 'See DESIGN.md (Part 0 is the as-built summary). Known findings: known_findings.json (demonstrations in findings/). Seeded changes that must be reported: seeded/ (79, tools/run_seeds.sh; the thorough tier re-applies up to three per property on a scratch copy as a must-fail self-test). Behaviour-preserving changes that must stay quiet: benign/, benign2/ (120, tools/run_benign.sh). Quick checks take 10-40 s each on 16 idle cores; an obligation left undecided is retried once with four times the budget before it is reported.',
}
json.dump(m, open(f'{V}/MANIFEST.json', 'w'), indent=1)
print('checks:', [c['property_id'] for c in checks], 'n/a:', len(na))
