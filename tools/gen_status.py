#!/usr/bin/env python3
"""Regenerates the measured tables of DESIGN.md (between the GENERATED markers) from evidence/*.json, tools/claims.json,
known_findings.json and seeded/*/meta.json."""
import json, glob, os, re
V = os.path.dirname(os.path.dirname(os.path.abspath(__file__)))
claims = json.load(open(V + '/tools/claims.json'))
rows = []
for pid in sorted(claims):
    ev = {}
    try:
        ev = json.load(open(f'{V}/evidence/{pid}.json'))
    except Exception:
        pass
    cov = ev.get('coverage', {})
    b = cov.get('bounded_stand_ins') or []
    bs = '; '.join(f"{x['name']} (bound {x['bound']}: {x['cases']} cases)" for x in b) or '-'
    kf = ', '.join(sorted({k.split(' ')[0] for k in (cov.get('known_findings_seen') or [])})) or '-'
    rows.append(f"| {pid} | {len(cov.get('functions_under_contract') or [])} | {cov.get('obligations', '?')} | {cov.get('discharged', '?')} | {ev.get('wall_s', 0):.0f} s | {bs} | {kf} |")
out = ["| property | functions under contract | obligations | discharged | quick wall time | bounded stand-ins (not counted) | known-finding obligations seen |", "|---|---|---|---|---|---|---|"] + rows
held = []
for d in sorted(glob.glob(V + '/seeded/*-[CD]')):
    try:
        m = json.load(open(d + '/meta.json'))
    except Exception:
        continue
    sid = os.path.basename(d); own = sid.split('-')[0]
    det = m.get('heldout_detected_by') or []
    how = m.get('heldout_detected_how') or []
    verdict = 'own check' if own in det else ('another check' if det else '**missed**')
    now = m.get('detected_by') if isinstance(m.get('detected_by'), list) else []
    held.append(f"| {sid} | {' '.join(m.get('heldout_checks_run', [])) or '-'} | {' '.join(det) or '-'} | {verdict} | `{how[0] if how else '-'}` | {' '.join(now) or '-'} |")
hout = ["| held-out change | checks run | detected by (first run) | verdict | first failing obligation | detected by (current contracts) |", "|---|---|---|---|---|---|"] + held
seeds = []
for d in sorted(glob.glob(V + '/seeded/*')):
    if d.endswith('-C') or d.endswith('-D'):
        continue
    try:
        m = json.load(open(d + '/meta.json'))
    except Exception:
        continue
    sid = os.path.basename(d)
    det = m.get('detected_by')
    how = m.get('detected_how') or []
    if not isinstance(det, list):
        det, how = [], []
    first = how[0] if how else '-'
    seeds.append(f"| {sid} | {' '.join(m.get('checks_run', [])) or '-'} | {' '.join(det) or '**not detected**'} | `{first}` |")
sout = ["| seeded change | checks run | detected by | first failing obligation |", "|---|---|---|---|"] + seeds
p = V + '/DESIGN.md'
s = open(p).read()
def put(tag, lines):
    global s
    a, b = f'<!-- GENERATED:{tag} -->', f'<!-- /GENERATED:{tag} -->'
    i, j = s.index(a), s.index(b)
    s = s[:i + len(a)] + '\n' + '\n'.join(lines) + '\n' + s[j:]
# in-repo functions whose contract is assumed (extern), by package
import subprocess
ext = {}
for f in sorted(glob.glob('/repo/**/zz_contracts_verif.go', recursive=True)):
    pkg = os.path.dirname(f).replace('/repo/', '')
    for ln in open(f):
        m = re.match(r'//@ extern func (\S+)', ln)
        if not m: continue
        k = m.group(1)
        if k == 'iface' or '/' in k and not k.startswith('github.com/furiko-io/furiko'): continue
        if k.startswith('(') or k.split('.')[0] in ('time', 'strings', 'strconv', 'reflect', 'container/heap', 'fmt', 'sort', 'regexp'): continue
        ext.setdefault(pkg, []).append(k.replace('github.com/furiko-io/furiko/', ''))
aout = ['| package | in-repo functions with an assumed (extern) contract |', '|---|---|'] + [f"| `{p}` | {', '.join('`'+x+'`' for x in v)} |" for p, v in sorted(ext.items())]
put('assumed', aout)
put('status', out)
put('seeds', sout)
put('heldout', hout)

def benign_table(dirname, tag):
    ben = []
    nfirst = nfinal = ntotal = 0
    for d in sorted(glob.glob(V + '/' + dirname + '/C*')):
        try:
            first = json.load(open(d + '/results_first_run.json'))
        except Exception:
            first = {}
        try:
            final = json.load(open(d + '/results.json'))
        except Exception:
            final = {}
        for k in sorted(set(first) | set(final)):
            ntotal += 1
            f0 = first.get(k, {}); f1 = final.get(k, {})
            a0 = ' '.join(f0.get('alarms', [])) or '-'
            a1 = ' '.join(f1.get('alarms', [])) or '-'
            if a0 != '-': nfirst += 1
            if a1 != '-': nfinal += 1
            notes = ' '.join(f1.get('notes', []))
            ben.append(f"| {k} | {' '.join(f1.get('checks_run', f0.get('checks_run', [])))} | {a0} | {a1} | {notes or '-'} |")
    bout = [f"{ntotal} behaviour-preserving changes; first run: {nfirst} raised an alarm; with the machinery as committed: {nfinal}.", "",
            "| change | checks run | alarms, first run | alarms, machinery as committed | re-bindings used |", "|---|---|---|---|---|"] + ben
    put(tag, bout)
benign_table('benign', 'benign')
benign_table('benign2', 'benign2')


open(p, 'w').write(s)
print('DESIGN.md tables regenerated')
