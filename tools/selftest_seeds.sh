#!/bin/bash
# selftest_seeds.sh <Cxx> <repo> <outdir>: must-fail self-test of one property's check (thorough tier).
# Copies <repo>'s working tree (without .git) to a scratch directory, applies each confirmed seeded change of the property
# (seeded/<Cxx>-*/patch.diff: small changes that compile, pass the test suite and break the property), runs the quick check
# against the copy and expects it to report a violation. The result goes into <outdir>/evidence/<Cxx>.json under
# coverage.mustfail_selftest. A seeded change that is NOT reported is a weakness of the machinery, not a violation of the
# property by <repo>: it is printed as SELFTEST-WEAKNESS and never changes the exit code.
cd "$(dirname "$0")/.." || exit 0
verif="$(pwd)"; prop="$1"; repo="$2"; outdir="$3"
ev="$outdir/evidence/$prop.json"
[ -f "$ev" ] || exit 0
seeds=$(ls -d seeded/$prop-* 2>/dev/null | sort -r | head -3)   # at most three (the most recent rounds first): bounds the thorough run
[ -n "$seeds" ] || exit 0
tmp=$(mktemp -d /tmp/fvc-selftest-XXXXXX); tmpout=$(mktemp -d /tmp/fvc-selftest-out-XXXXXX)
trap 'rm -rf "$tmp" "$tmpout"' EXIT
(cd "$repo" && tar --exclude=.git -cf - .) | (cd "$tmp" && tar -xf -)
res="{}"; n=0; ok=0
for d in $seeds; do
  id=$(basename $d); p="$verif/$d/patch.diff"; [ -f "$p" ] || continue
  if ! (cd "$tmp" && git apply --check "$p" 2>/dev/null); then
    res=$(echo "$res" | jq --arg k "$id" '.[$k]="not applicable: the patch does not apply to this tree"'); continue
  fi
  (cd "$tmp" && git apply "$p")
  o=$(FVC_SELFTEST=0 FVC_REPO="$tmp" FVC_OUT="$tmpout" ./check "$prop" --tier quick 2>&1); rc=$?
  (cd "$tmp" && git apply -R "$p")
  n=$((n+1))
  if [ $rc -eq 1 ]; then
    ok=$((ok+1)); first=$(echo "$o" | grep -m1 VIOLATION | sed -E 's/.*obligation=([^ ]+).*/\1/')
    res=$(echo "$res" | jq --arg k "$id" --arg v "reported: $first" '.[$k]=$v')
  else
    res=$(echo "$res" | jq --arg k "$id" --arg v "NOT reported (exit $rc)" '.[$k]=$v')
    echo "SELFTEST-WEAKNESS: property=$prop seeded change $id (breaks the property, passes the tests) is not reported by this check"
  fi
done
jq --argjson r "$res" --argjson n "$n" --argjson ok "$ok" '.coverage.mustfail_selftest={"what":"confirmed seeded changes of this property applied one at a time to a scratch copy of the tree under check; the quick check must report a violation","applied":$n,"reported":$ok,"per_change":$r}' "$ev" > "$ev.tmp" && mv "$ev.tmp" "$ev"
echo "selftest: property=$prop seeded changes applied=$n reported=$ok"
