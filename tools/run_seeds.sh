#!/bin/bash
# run_seeds.sh [ids...]: applies each confirmed seeded change to /repo, runs the checks of ALL claimed properties,
# records which checks report a violation, and undoes the change. /repo must be clean (commit hooks first).
cd /verif
if [ -n "$(git -C /repo status --porcelain)" ]; then echo "/repo is not clean; commit first" >&2; exit 2; fi
ids="$@"; [ -z "$ids" ] && ids=$(ls seeded)
props=$(python3 -c "import json;print(' '.join(c['property_id'] for c in json.load(open('MANIFEST.json'))['checks']))")
for id in $ids; do
  d=seeded/$id; [ -f $d/patch.diff ] || continue
  git -C /repo apply $d/patch.diff || { echo "$id: patch does not apply"; continue; }
  hits=""
  for p in $props; do
    out=$(./check $p 2>&1); rc=$?
    if [ $rc -eq 1 ]; then hits="$hits $p"; echo "$out" | grep VIOLATION | sed "s/^/    /" | cut -c1-200 > /tmp/seed_$id_$p.txt; fi
  done
  git -C /repo apply -R $d/patch.diff
  own=${id%%-*}
  echo "$id: detected_by=[${hits# }] (own property $own)"
  python3 - "$d/meta.json" "${hits# }" <<'PY'
import json,sys
m=json.load(open(sys.argv[1])); m['detected_by']=sys.argv[2].split(); json.dump(m,open(sys.argv[1],'w'),indent=1)
PY
done
# evidence files were rewritten by the runs on modified trees: regenerate them on the clean tree
for p in $props; do ./check $p >/dev/null 2>&1; done
