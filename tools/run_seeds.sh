#!/bin/bash
# run_seeds.sh [ids...]: for each confirmed seeded change, applies it to a scratch worktree of /repo's HEAD (never to /repo
# itself), runs the quick checks of the seed's own property and of every property that has a function under contract in a
# package the change touches, records which checks report a violation (seeded/<id>/meta.json: detected_by, detected_how),
# and removes the worktree. Evidence and replays of these runs go to a scratch directory, not to /verif/evidence.
cd "$(dirname "$0")/.." || exit 2
verif="$(pwd)"
wt=$(mktemp -d /tmp/fvc-seedwt-XXXXXX); out=$(mktemp -d /tmp/fvc-seedout-XXXXXX)
git -C /repo worktree add --detach "$wt" HEAD >/dev/null 2>&1 || { echo "cannot create worktree" >&2; exit 2; }
trap 'git -C /repo worktree remove --force "$wt" >/dev/null 2>&1; rm -rf "$wt" "$out"' EXIT
ids="$@"; [ -z "$ids" ] && ids=$(ls seeded)
for id in $ids; do
  d=seeded/$id; [ -f $d/patch.diff ] || continue
  git -C "$wt" apply "$verif/$d/patch.diff" || { echo "$id: patch does not apply"; continue; }
  own=${id%%-*}
  props=$(python3 - "$verif" "$d/patch.diff" "$own" <<'PY'
import json,sys,glob,re,os
verif,patch,own=sys.argv[1:4]
dirs=set()
for ln in open(patch):
    m=re.match(r'\+\+\+ b/(.*)/[^/]+$',ln)
    if m: dirs.add('github.com/furiko-io/furiko/'+m.group(1))
props=[own]
for f in sorted(glob.glob(verif+'/evidence/C*.json')):
    ev=json.load(open(f)); pid=ev['property_id']
    for fn in ev['coverage'].get('functions_under_contract',[]):
        pkg=re.sub(r'^\(\*?','',fn); pkg=re.sub(r'\)?\.[^./]+(\.[^./]+)?$','',pkg) if '(' in fn else fn.rsplit('.',1)[0]
        pkg=pkg.rstrip(')')
        if pkg in dirs and pid not in props: props.append(pid)
print(' '.join(props))
PY
)
  hits=""; how=""
  for p in $props; do
    o=$(FVC_REPO="$wt" FVC_OUT="$out" ./check $p 2>&1); rc=$?
    if [ $rc -eq 1 ]; then
      hits="$hits $p"
      how="$how$(echo "$o" | grep VIOLATION | sed -E 's/.*obligation=([^ ]+).*/\1/' | head -4 | tr '\n' ' ')"
    fi
  done
  git -C "$wt" apply -R "$verif/$d/patch.diff"
  echo "$id: ran=[$props] detected_by=[${hits# }] $how"
  python3 - "$d/meta.json" "${hits# }" "$how" "$props" <<'PY'
import json,sys
m=json.load(open(sys.argv[1])); m['detected_by']=sys.argv[2].split(); m['detected_how']=sys.argv[3].split(); m['checks_run']=sys.argv[4].split()
json.dump(m,open(sys.argv[1],'w'),indent=1)
PY
done
