#!/usr/bin/env python3
"""pin_params.py: writes a `params` clause into every in-repo function contract that has none, from the function's
current signature (fvc params). After this the parameter names in requires / ensures are positional: renaming a parameter
in the source does not change what the contract says. Run once after writing a new contract; idempotent."""
import subprocess, collections, re, sys
out = subprocess.run(['/verif/bin/fvc', 'params'] + sys.argv[1:], capture_output=True, text=True, check=True).stdout
byfile = collections.defaultdict(list)
for ln in out.splitlines():
    m = re.match(r'(.*?):(\d+): ((?:params|locals) .*)$', ln)
    if m:
        byfile[m.group(1)].append((int(m.group(2)), m.group(3)))
n = 0
for f, items in byfile.items():
    L = open(f).read().split('\n')
    for line, text in sorted(items, reverse=True):
        assert L[line - 1].startswith('//@ func '), (f, line, L[line - 1])
        L.insert(line, '//@   ' + text)
        n += 1
    open(f, 'w').write('\n'.join(L))
print('pinned', n, 'clauses')
