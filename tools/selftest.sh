#!/bin/bash
# selftest.sh: must-fail / must-pass self test of the machinery, to be run after every change to fvc.
#  1. every check passes on the unchanged tree (exit 0, no VIOLATION line), and prints its KNOWN-FINDING canaries;
#  2. a fixed subset of the seeded changes (one per property where available) is still detected by its own check.
# Full sweep over all 40 seeded changes: tools/run_seeds.sh (about two hours).
cd "$(dirname "$0")/.." || exit 2
fail=0
props=$(python3 -c "import json;print(' '.join(c['property_id'] for c in json.load(open('MANIFEST.json'))['checks']))")
for p in $props; do
  o=$(./check $p 2>&1); rc=$?
  if [ $rc -ne 0 ] || echo "$o" | grep -q '^VIOLATION'; then echo "SELFTEST FAIL: $p alarms on the unchanged tree (rc=$rc)"; fail=1; fi
done
for kf in "C03 InformerWorker.Init#ensures:add-handler" "C14 HashIndexes#ensures:one-slot-per-index" "C13 GetTTLAfterFinished#overflow.1" "C18 lemma:replace-order-independent"; do
  set -- $kf
  ./check $1 2>&1 | grep -q "KNOWN-FINDING: property=$1 .*$2" || { echo "SELFTEST FAIL: canary $2 of $1 not reported"; fail=1; }
done
subset="C01-A C02-B C04-A C05-B C07-A C08-B C09-A C11-B C13-A C14-A C15-B C17-B C18-A C19-B C20-B"
o=$(tools/run_seeds.sh $subset 2>&1); echo "$o"
for id in $subset; do
  own=${id%%-*}
  echo "$o" | grep -q "^$id: .*detected_by=\[[^]]*$own" || { echo "SELFTEST FAIL: seeded change $id is not detected by $own"; fail=1; }
done
[ $fail -eq 0 ] && echo "SELFTEST OK"
exit $fail
