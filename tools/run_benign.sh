#!/bin/bash
# run_benign.sh [Cxx/n ...]: for each behaviour-preserving change benign/<Cxx>/<n>.diff, applies it to a scratch worktree of
# /repo's HEAD (never to /repo itself), runs the quick checks of the change's own property and of every property that has
# a function under contract in a package the change touches, and records every check that raised an alarm (exit 1) or
# could not run (exit 2) in benign/<Cxx>/results.json. An alarm here is a false alarm of the machinery.
cd "$(dirname "$0")/.." || exit 2
verif="$(pwd)"
wt=$(mktemp -d /tmp/fvc-benwt-XXXXXX); out=$(mktemp -d /tmp/fvc-benout-XXXXXX)
git -C /repo worktree add --detach "$wt" HEAD >/dev/null 2>&1 || { echo "cannot create worktree" >&2; exit 2; }
trap 'git -C /repo worktree remove --force "$wt" >/dev/null 2>&1; rm -rf "$wt" "$out"' EXIT
bd="${BENIGN_DIR:-benign}"; ids="$@"; [ -z "$ids" ] && ids=$(cd $bd && ls */*.diff | sed 's/\.diff$//')
for id in $ids; do
  patch=$bd/$id.diff; [ -f $patch ] || continue
  git -C "$wt" apply "$verif/$patch" || { echo "$id: patch does not apply"; continue; }
  own=${id%%/*}
  props=$(python3 - "$verif" "$patch" "$own" <<'PY'
import json,sys,glob,re,os
verif,patch,own=sys.argv[1:4]
dirs=set()
for ln in open(patch):
    m=re.match(r'\+\+\+ b/(.*)/[^/]+$',ln)
    if m: dirs.add('github.com/furiko-io/furiko/'+m.group(1))
props=[own]
for f in sorted(glob.glob(verif+'/evidence/C*.json')):
    ev=json.load(open(f)); pid=ev['property_id']
    for fn in ev['coverage'].get('functions_under_contract',[]):
        pkg=re.sub(r'^\(\*?','',fn); pkg=re.sub(r'\)?\.[^./]+(\.[^./]+)?$','',pkg) if '(' in fn else fn.rsplit('.',1)[0]
        pkg=pkg.rstrip(')')
        if pkg in dirs and pid not in props: props.append(pid)
print(' '.join(props))
PY
)
  alarms=""; how=""; notes=""
  for p in $props; do
    o=$(FVC_REPO="$wt" FVC_OUT="$out" ./check $p 2>&1); rc=$?
    if [ $rc -ne 0 ]; then
      alarms="$alarms $p(rc=$rc)"
      how="$how$(echo "$o" | grep VIOLATION | sed -E 's/.*obligation=([^ ]+).*/\1/' | head -4 | tr '\n' ' ')"
    fi
    if [ -f "$out/evidence/$p.json" ]; then
      nb=$(jq -r '[.assumptions[]|select(test("re-bound"))]|length' "$out/evidence/$p.json" 2>/dev/null); [ "${nb:-0}" != "0" ] && notes="$notes $p:rebound=$nb"
    fi
  done
  git -C "$wt" apply -R "$verif/$patch"
  echo "$id: ran=[$props] alarms=[${alarms# }] $how $notes"
  python3 - "$bd/$own/results.json" "$id" "${alarms# }" "$how" "$props" "$notes" <<'PY'
import json,sys,os
p=sys.argv[1]
m=json.load(open(p)) if os.path.exists(p) else {}
m[sys.argv[2]]={'checks_run':sys.argv[5].split(),'alarms':sys.argv[3].split(),'alarm_obligations':sys.argv[4].split(),'notes':sys.argv[6].split()}
json.dump(m,open(p,'w'),indent=1,sort_keys=True)
PY
done
