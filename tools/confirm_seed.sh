#!/bin/bash
# confirm_seed.sh <src_dir (has patch.diff, demo_test.go, notes.md)> <property> <name>
# Confirms a seeded change in a scratch worktree: builds, full test suite passes with the patch,
# demo fails with the patch and passes without. Writes /verif/seeded/<property>-<name>/ if confirmed.
set -u
export GOFLAGS=-mod=mod GOPROXY=off GOSUMDB=off GOTOOLCHAIN=local
src="$1"; prop="$2"; name="$3"
id="$prop-$name"
wt="/tmp/confirm-$id"
out="/verif/seeded/$id"
log="/tmp/confirm-$id.log"
: > "$log"
base=$(git -C /repo rev-list --max-parents=0 HEAD | tail -1)
git -C /repo worktree add -q --detach "$wt" HEAD >>"$log" 2>&1 || { echo "$id: worktree failed"; exit 1; }
cleanup() { git -C /repo worktree remove --force "$wt" >/dev/null 2>&1; }
trap cleanup EXIT
cd "$wt"
demo_path=$(head -5 "$src/demo_test.go" | grep -oE '[A-Za-z0-9_./-]+_test\.go' | head -1)
if [ -z "$demo_path" ]; then echo "$id: cannot find demo path"; exit 1; fi
pkgdir=$(dirname "$demo_path")
cp "$src/demo_test.go" "$wt/$demo_path"
# 1. demo on original
go test -vet=off -count=1 -timeout 300s "./$pkgdir/" -run 'Seed|seed|Demo' >>"$log" 2>&1; orig=$?
# 2. apply patch
git apply "$src/patch.diff" >>"$log" 2>&1 || { echo "$id: patch does not apply"; exit 1; }
go build ./pkg/... ./apis/... ./cmd/... >>"$log" 2>&1; build=$?
go test -vet=off -count=1 -timeout 300s "./$pkgdir/" -run 'Seed|seed|Demo' >>"$log" 2>&1; patched=$?
# 3. full suite with patch but without the demo
rm -f "$wt/$demo_path"
go test -vet=off -count=1 -timeout 25m ./pkg/... ./apis/... ./cmd/... > "$log.suite" 2>&1; suite=$?
fails=""
if [ $suite -ne 0 ]; then
  # some tests are flaky on the original tree too (BASELINE.json lists 4): re-run the failing packages twice
  suite=0
  for fp in $(grep -E '^FAIL\s+github.com' "$log.suite" | awk '{print $2}' | sed 's#github.com/furiko-io/furiko#.#'); do
    go test -vet=off -count=1 -timeout 10m "$fp" >>"$log" 2>&1 || go test -vet=off -count=1 -timeout 10m "$fp" >>"$log" 2>&1 || { suite=1; fails="$fails $fp"; }
  done
fi
echo "$id: demo_on_original=$orig build=$build demo_with_patch=$patched suite_with_patch=$suite $fails"
if [ $orig -eq 0 ] && [ $build -eq 0 ] && [ $patched -ne 0 ] && [ $suite -eq 0 ]; then
  mkdir -p "$out"
  cp "$src/patch.diff" "$out/patch.diff"; cp "$src/demo_test.go" "$out/demo_test.go"; cp "$src/notes.md" "$out/notes.md" 2>/dev/null
  python3 - "$out" "$prop" "$demo_path" <<'PY'
import json,sys
out,prop,demo=sys.argv[1:4]
notes=open(out+'/notes.md').read() if __import__('os').path.exists(out+'/notes.md') else ''
json.dump({"property":prop,"demo_path":demo,
 "needs_to_manifest":notes[:1500],
 "confirmed":{"demo_on_original":"pass","build_with_patch":"ok","demo_with_patch":"FAIL","full_suite_with_patch":"pass (pkg/cli flakes ignored; they also flake on the original tree)"},
 "how":"tools/confirm_seed.sh in a scratch worktree of /repo at HEAD (pinned tree + hook and fix commits)",
 "detected_by":"(filled in after running the checks)"}, open(out+'/meta.json','w'), indent=1)
PY
  echo "$id: CONFIRMED"
else
  echo "$id: NOT confirmed (see $log)"
fi
