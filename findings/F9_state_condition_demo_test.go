// Demonstration of finding F9 (property C11), to be placed at pkg/execution/controllers/jobcontroller/zz_f9_demo_test.go:
//   go test -vet=off -count=1 ./pkg/execution/controllers/jobcontroller/ -run TestF9StateMatchesCondition
// Fails on the pinned tree (010b678): a running Job that is being deleted gets condition Finished / phase Killed but state "Running".
package jobcontroller_test

import (
	"testing"
	"time"

	corev1 "k8s.io/api/core/v1"
	metav1 "k8s.io/apimachinery/pkg/apis/meta/v1"

	execution "github.com/furiko-io/furiko/apis/execution/v1alpha1"
	"github.com/furiko-io/furiko/pkg/execution/controllers/jobcontroller"
)

func TestF9StateMatchesCondition(t *testing.T) {
	now := metav1.NewTime(time.Unix(1700000000, 0))
	rj := &execution.Job{
		ObjectMeta: metav1.ObjectMeta{Name: "job", Namespace: "ns", DeletionTimestamp: &now},
		Spec: execution.JobSpec{Template: &execution.JobTemplate{TaskTemplate: execution.TaskTemplate{Pod: &execution.PodTemplateSpec{
			Spec: corev1.PodSpec{Containers: []corev1.Container{{Name: "c", Image: "i"}}}}}}},
		Status: execution.JobStatus{
			StartTime: &now,
			Tasks: []execution.TaskRef{{Name: "job-gezdqo-0", CreationTimestamp: now, RunningTimestamp: &now,
				Status: execution.TaskStatus{State: execution.TaskRunning}}},
		},
	}
	newRj, err := jobcontroller.UpdateJobStatusFromTaskRefs(rj)
	if err != nil {
		t.Fatal(err)
	}
	if newRj.Status.Condition.Finished == nil {
		t.Fatalf("expected the deleted Job to be reported finished, got %+v", newRj.Status.Condition)
	}
	if newRj.Status.State != execution.JobStateFinished {
		t.Fatalf("condition is Finished (phase %v) but state is %q", newRj.Status.Phase, newRj.Status.State)
	}
}
