// Demonstration of finding F5 (property C18), to be placed at pkg/core/options/zz_f5_demo_test.go:
//   go test -vet=off -count=1 ./pkg/core/options/ -run TestF5
// Fails on the pinned tree (010b678); recorded as a known finding (obligation options::lemma replace-order-independent).
// SubstituteVariables applies strings.ReplaceAll once per key while ranging over a Go map, so when a value contains the
// ${...} syntax of another key of the same map the result depends on the iteration order.
package options_test

import (
	"testing"

	"github.com/furiko-io/furiko/pkg/core/options"
)

func TestF5SubstitutionIsDeterministic(t *testing.T) {
	subs := map[string]string{"option.a": "${option.b}", "option.b": "x"}
	seen := map[string]int{}
	for i := 0; i < 400; i++ {
		seen[options.SubstituteVariables("${option.a}", subs)]++
	}
	if len(seen) != 1 {
		t.Fatalf("the same template and the same substitution map gave different results: %v", seen)
	}
}
