// Demonstration of the F3 family (properties C13, C12, C08; the C04 sibling is the dynamic configuration value
// maxDowntimeThresholdSeconds), to be placed at pkg/execution/util/job/zz_f3_demo_test.go:
//   go test -vet=off -count=1 ./pkg/execution/util/job/ -run TestF3
// Fails on the pinned tree (010b678); recorded as known findings with guards (value > 9223372036 seconds).
// time.Duration(sec) * time.Second wraps for values admission accepts (it only checks >= 0).
package job_test

import (
	"testing"

	"k8s.io/utils/pointer"

	configv1alpha1 "github.com/furiko-io/furiko/apis/config/v1alpha1"
	execution "github.com/furiko-io/furiko/apis/execution/v1alpha1"
	"github.com/furiko-io/furiko/pkg/execution/util/job"
)

func TestF3SecondsToDurationNeverNegative(t *testing.T) {
	const huge = int64(9223372037) // accepted by validation (>= 0), about 292 years
	rj := &execution.Job{Spec: execution.JobSpec{
		TTLSecondsAfterFinished: pointer.Int64(huge),
		Template: &execution.JobTemplate{
			TaskPendingTimeoutSeconds: pointer.Int64(huge),
			RetryDelaySeconds:         pointer.Int64(huge),
		},
	}}
	cfg := &configv1alpha1.JobExecutionConfig{ForceDeleteTaskTimeoutSeconds: pointer.Int64(huge)}
	if d := job.GetTTLAfterFinished(rj, cfg); d < 0 {
		t.Errorf("F3a: TTL after finished is negative (%v): a finished Job is deleted immediately", d)
	}
	if d := job.GetPendingTimeout(rj, cfg); d < 0 {
		t.Errorf("F3b: pending timeout is negative (%v): pending tasks are killed immediately", d)
	}
	if d := job.GetForceDeleteTimeout(cfg); d < 0 {
		t.Errorf("F3c: force delete timeout is negative (%v)", d)
	}
	if d := rj.GetRetryDelay(); d < 0 {
		t.Errorf("F3e: retry delay is negative (%v): a failed task is retried immediately", d)
	}
}
