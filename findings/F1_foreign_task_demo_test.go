// Demonstration of finding F1 (property C09), to be placed at pkg/execution/controllers/jobcontroller/zz_f1_demo_test.go:
//   go test -vet=off -count=1 ./pkg/execution/controllers/jobcontroller/ -run TestF1ForeignTaskEndsInAdmissionError
// Fails on the pinned tree (010b678): the Job never receives the admission error and retries forever. Passes after the fix commit.

package jobcontroller_test

import (
	"context"
	"testing"

	"github.com/stretchr/testify/assert"
	corev1 "k8s.io/api/core/v1"
	metav1 "k8s.io/apimachinery/pkg/apis/meta/v1"
	"k8s.io/apimachinery/pkg/runtime"
	"k8s.io/apimachinery/pkg/types"
	"k8s.io/client-go/tools/record"
	"k8s.io/utils/pointer"

	executiongroup "github.com/furiko-io/furiko/apis/execution"
	execution "github.com/furiko-io/furiko/apis/execution/v1alpha1"
	"github.com/furiko-io/furiko/pkg/execution/controllers/jobcontroller"
	"github.com/furiko-io/furiko/pkg/execution/taskexecutor/podtaskexecutor"
	"github.com/furiko-io/furiko/pkg/execution/tasks"
	"github.com/furiko-io/furiko/pkg/runtime/controllercontext"
	"github.com/furiko-io/furiko/pkg/runtime/reconciler"
	runtimetesting "github.com/furiko-io/furiko/pkg/runtime/testing"
	"github.com/furiko-io/furiko/pkg/utils/testutils"
)

// A Job "seed-demo-job" (UID old) was deleted while orphaning its finished Pod.
// A new Job with the same name (UID new) is then created. The Pod of the old
// incarnation occupies the deterministic task name of the new Job's first
// attempt, but it is controlled by a different object (different UID), so it
// must never be adopted into the new Job's status.
func TestF1ForeignTaskEndsInAdmissionError(t *testing.T) {
	const (
		ns          = "test"
		name        = "seed-demo-job"
		seedCreate  = "2021-02-09T04:06:00Z"
		seedStart   = "2021-02-09T04:06:01Z"
		seedFinish  = "2021-02-09T04:06:18Z"
		seedNow     = "2021-02-09T04:30:00Z"
		seedNewTime = "2021-02-09T04:29:00Z"
	)

	template := &execution.PodTemplateSpec{
		Spec: corev1.PodSpec{
			Containers: []corev1.Container{{Name: "container", Image: "hello-world"}},
		},
	}

	mkJob := func(uid types.UID, created string) *execution.Job {
		return &execution.Job{
			ObjectMeta: metav1.ObjectMeta{
				Name:              name,
				Namespace:         ns,
				UID:               uid,
				CreationTimestamp: testutils.Mkmtime(created),
				Finalizers:        []string{executiongroup.DeleteDependentsFinalizer},
			},
			Spec: execution.JobSpec{
				Type: execution.JobTypeAdhoc,
				Template: &execution.JobTemplate{
					TaskTemplate: execution.TaskTemplate{Pod: template},
				},
			},
			Status: execution.JobStatus{
				StartTime: testutils.Mkmtimep(created),
			},
		}
	}

	oldJob := mkJob("11111111-1111-1111-1111-111111111111", seedCreate)
	newJob := mkJob("22222222-2222-2222-2222-222222222222", seedNewTime)

	// Pod left behind by the previous incarnation of the Job, already succeeded.
	stalePod, err := podtaskexecutor.NewPod(oldJob, template.ConvertToCoreSpec(), tasks.TaskIndex{
		Retry:    0,
		Parallel: execution.ParallelIndex{IndexNumber: pointer.Int64(0)},
	})
	if err != nil {
		t.Fatal(err)
	}
	stalePod.CreationTimestamp = testutils.Mkmtime(seedCreate)
	stalePod.Status = corev1.PodStatus{
		Phase:     corev1.PodSucceeded,
		StartTime: testutils.Mkmtimep(seedStart),
		ContainerStatuses: []corev1.ContainerStatus{{
			Name: "container",
			State: corev1.ContainerState{Terminated: &corev1.ContainerStateTerminated{
				StartedAt:  testutils.Mkmtime(seedStart),
				FinishedAt: testutils.Mkmtime(seedFinish),
			}},
		}},
	}

	test := runtimetesting.ReconcilerTest{
		ContextFunc: func(c controllercontext.Context, recorder record.EventRecorder) runtimetesting.ControllerContext {
			return jobcontroller.NewContextWithRecorder(c, recorder)
		},
		ReconcilerFunc: func(c runtimetesting.ControllerContext) reconciler.Reconciler {
			return jobcontroller.NewReconciler(c.(*jobcontroller.Context), runtimetesting.ReconcilerDefaultConcurrency)
		},
		Now: testutils.Mktime(seedNow),
	}

	test.RunTestCase(t, runtimetesting.ReconcilerTestCase{
		Name:        "foreign pod occupying task name is not adopted",
		Target:      newJob,
		Fixtures:    []runtime.Object{stalePod},
		WantActions: runtimetesting.CombinedActions{Ignore: true},
		WantEvents: []runtimetesting.Event{{
			UID:     newJob.UID,
			Type:    corev1.EventTypeWarning,
			Reason:  "AdmissionError",
			Message: "Task already exists and cannot be adopted: " + stalePod.Name,
		}, {
			UID:     newJob.UID,
			Type:    corev1.EventTypeWarning,
			Reason:  "Failed",
			Message: "Job failed with result: AdmissionError",
		}},
		Assert: func(t assert.TestingT, _ runtimetesting.ReconcilerTestCase, ctrlContext runtimetesting.ControllerContext) {
			rj, err := ctrlContext.Clientsets().Furiko().ExecutionV1alpha1().Jobs(ns).
				Get(context.Background(), name, metav1.GetOptions{})
			if !assert.NoError(t, err) {
				return
			}
			_, hasErr := rj.Annotations["execution.furiko.io/admission-error"]
			assert.True(t, hasErr, "a task name occupied by a foreign object must make the Job end in AdmissionError, got annotations %v", rj.Annotations)
			assert.Equal(t, execution.JobAdmissionError, rj.Status.Phase, "Job must be terminal (AdmissionError) instead of retrying forever")
		},
	})
}
