// Demonstrations of findings F6 and F7 (property C03), to be placed at
// pkg/execution/controllers/croncontroller/zz_f6_f7_demo_test.go (package croncontroller_test; reuses the helpers of cron_worker_test.go):
//   go test -vet=off -count=1 ./pkg/execution/controllers/croncontroller/ -run 'TestF6|TestF7'
// F6: a JobConfig created after the controller started is never scheduled (no AddFunc is registered).
// F7: a deleted JobConfig is re-inserted into the schedule heap; a JobConfig recreated under the same name then fires once on the OLD schedule.
package croncontroller_test

import (
	"context"
	"testing"
	"time"

	"github.com/stretchr/testify/assert"
	metav1 "k8s.io/apimachinery/pkg/apis/meta/v1"
	"k8s.io/apimachinery/pkg/types"
	"k8s.io/client-go/tools/cache"
	fakeclock "k8s.io/utils/clock/testing"

	execution "github.com/furiko-io/furiko/apis/execution/v1alpha1"
	"github.com/furiko-io/furiko/pkg/execution/controllers/croncontroller"
	"github.com/furiko-io/furiko/pkg/runtime/controllercontext/mock"
	"github.com/furiko-io/furiko/pkg/utils/testutils"
)

func demoJobConfig(name, expr string) *execution.JobConfig {
	return &execution.JobConfig{
		ObjectMeta: metav1.ObjectMeta{Name: name, Namespace: "test", UID: types.UID("uid-" + name + "-" + expr[:2])},
		Spec: execution.JobConfigSpec{
			Schedule: &execution.ScheduleSpec{Cron: &execution.CronSchedule{Expression: expr, Timezone: "UTC"}},
		},
	}
}

type demoHarness struct {
	ctx     context.Context
	clock   *fakeclock.FakeClock
	worker  *croncontroller.CronWorker
	queue   *enqueueHandler
	handler *notifyingUpdateHandler
	c       *mock.Context
}

func newDemoHarness(t *testing.T, now time.Time, initial ...*execution.JobConfig) (*demoHarness, context.CancelFunc) {
	ctx, cancel := context.WithCancel(context.Background())
	h := &demoHarness{ctx: ctx, clock: fakeclock.NewFakeClock(now)}
	croncontroller.Clock = h.clock
	h.c = mock.NewContext()
	ctrlContext := croncontroller.NewContext(h.c)
	h.queue = newEnqueueHandler()
	h.worker = croncontroller.NewCronWorker(ctrlContext, h.queue)
	h.handler = newNotifyingUpdateHandler(croncontroller.NewUpdateHandler(ctrlContext))
	croncontroller.NewInformerWorker(ctrlContext, h.handler).Init()
	assert.NoError(t, h.c.Start(ctx))
	for _, jc := range initial {
		_, err := h.c.MockClientsets().Furiko().ExecutionV1alpha1().JobConfigs(jc.Namespace).Create(ctx, jc, metav1.CreateOptions{})
		assert.NoError(t, err)
	}
	if !cache.WaitForCacheSync(ctx.Done(), ctrlContext.HasSynced...) {
		t.Fatal("caches not synced")
	}
	time.Sleep(100 * time.Millisecond)
	assert.NoError(t, h.worker.Init())
	return h, cancel
}

func (h *demoHarness) tick(ts string) []string {
	h.clock.SetTime(testutils.Mktime(ts))
	h.worker.Work()
	var out []string
	for h.queue.Len() > 0 {
		item, _ := h.queue.Get()
		out = append(out, item)
	}
	return out
}

func TestF6CreatedJobConfigIsScheduled(t *testing.T) {
	h, cancel := newDemoHarness(t, testutils.Mktime("2021-02-09T04:00:30Z"))
	defer cancel()
	jc := demoJobConfig("created-later", "* * * * *")
	_, err := h.c.MockClientsets().Furiko().ExecutionV1alpha1().JobConfigs(jc.Namespace).Create(h.ctx, jc, metav1.CreateOptions{})
	assert.NoError(t, err)
	time.Sleep(200 * time.Millisecond) // let the informer deliver the add event
	var got []string
	for _, ts := range []string{"2021-02-09T04:01:00Z", "2021-02-09T04:02:00Z", "2021-02-09T04:03:00Z", "2021-02-09T04:04:00Z", "2021-02-09T04:05:00Z"} {
		got = append(got, h.tick(ts)...)
	}
	assert.NotEmpty(t, got, "a JobConfig with an every-minute schedule created after controller start was never scheduled in five minutes")
}

func TestF7DeletedJobConfigDoesNotFireOldSchedule(t *testing.T) {
	old := demoJobConfig("recreated", "0 * * * *")
	h, cancel := newDemoHarness(t, testutils.Mktime("2021-02-09T10:10:00Z"), old)
	defer cancel()
	client := h.c.MockClientsets().Furiko().ExecutionV1alpha1().JobConfigs(old.Namespace)
	h.clock.SetTime(testutils.Mktime("2021-02-09T10:30:00Z"))
	assert.NoError(t, client.Delete(h.ctx, old.Name, metav1.DeleteOptions{}))
	h.handler.Wait()
	assert.Empty(t, h.tick("2021-02-09T10:31:00Z"))
	// recreate under the same name with a schedule that only matches minute 30
	h.clock.SetTime(testutils.Mktime("2021-02-09T10:40:00Z"))
	_, err := client.Create(h.ctx, demoJobConfig("recreated", "30 * * * *"), metav1.CreateOptions{})
	assert.NoError(t, err)
	time.Sleep(200 * time.Millisecond)
	got := h.tick("2021-02-09T11:00:00Z")
	assert.Empty(t, got, "11:00 matches only the schedule of the DELETED JobConfig (0 * * * *); the recreated one is 30 * * * *")
}
