// Demonstration of findings F2 and F4 (property C14; F4 also C17), to be placed at
// pkg/execution/util/parallel/zz_f2_f4_demo_test.go:
//   go test -vet=off -count=1 ./pkg/execution/util/parallel/ -run 'TestF2|TestF4'
// Both fail on the pinned tree (010b678) and are recorded as known findings (not repaired; see DESIGN.md III.1).
package parallel_test

import (
	"testing"

	"k8s.io/apimachinery/pkg/util/validation/field"
	"k8s.io/utils/pointer"

	execution "github.com/furiko-io/furiko/apis/execution/v1alpha1"
	"github.com/furiko-io/furiko/pkg/execution/util/parallel"
	"github.com/furiko-io/furiko/pkg/execution/validation"
)

// F2: obligation parallel.HashIndexes#ensures:one-slot-per-index.
// HashIndex keeps 6 base32 characters of the decimal text of the hash, so distinct indexes of one accepted spec
// collide: they share a status slot (hashesIdx) and, through GenerateTaskName, a task name.
func TestF2DistinctIndexesShareASlot(t *testing.T) {
	spec := &execution.ParallelismSpec{WithCount: pointer.Int64(70), CompletionStrategy: execution.AllSuccessful}
	if errs := validation.NewValidator(nil).ValidateParallelismSpec(spec, field.NewPath("spec")); len(errs) != 0 {
		t.Fatalf("spec is expected to be accepted by admission: %v", errs)
	}
	indexes := parallel.GenerateIndexes(spec)
	hashes, hashesIdx, err := parallel.HashIndexes(indexes)
	if err != nil {
		t.Fatal(err)
	}
	for i := range indexes {
		if j := hashesIdx[hashes[i]]; j != i {
			t.Errorf("index %d and index %d share hash %q (one status slot, one task name)", i, j, hashes[i])
		}
	}
}

// F4: obligation parallel.GenerateIndexes#alloc.3 (guard: withCount > 2^60).
// Admission accepts any positive withCount; expanding it allocates withCount elements and panics.
func TestF4AcceptedCountCannotBeExpanded(t *testing.T) {
	spec := &execution.ParallelismSpec{WithCount: pointer.Int64(1 << 61), CompletionStrategy: execution.AllSuccessful}
	if errs := validation.NewValidator(nil).ValidateParallelismSpec(spec, field.NewPath("spec")); len(errs) != 0 {
		t.Fatalf("spec is expected to be accepted by admission: %v", errs)
	}
	defer func() {
		if r := recover(); r != nil {
			t.Fatalf("GenerateIndexes panicked on an accepted spec: %v", r)
		}
	}()
	_ = parallel.GenerateIndexes(spec)
}
