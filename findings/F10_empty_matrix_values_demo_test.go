// Demonstration of finding F10 (properties C14, C17), to be placed at pkg/execution/validation/zz_f10_demo_test.go:
//   go test -vet=off -count=1 ./pkg/execution/validation/ -run TestF10
// Fails on the pinned tree (010b678): admission accepts a matrix key with an empty value list, and expanding the
// accepted spec panics (index out of range [-1]) or yields no index at all, depending on map iteration order.
// Passes after commit "fix: reject a parallelism matrix key that has no values".
package validation_test

import (
	"testing"

	"k8s.io/apimachinery/pkg/util/validation/field"

	execution "github.com/furiko-io/furiko/apis/execution/v1alpha1"
	"github.com/furiko-io/furiko/pkg/execution/util/parallel"
	"github.com/furiko-io/furiko/pkg/execution/validation"
)

func TestF10AcceptedMatrixCanBeExpanded(t *testing.T) {
	spec := &execution.ParallelismSpec{
		WithMatrix:         map[string][]string{"a": {}, "b": {"x"}, "c": {"y", "z"}},
		CompletionStrategy: execution.AllSuccessful,
	}
	errs := validation.NewValidator(nil).ValidateParallelismSpec(spec, field.NewPath("spec"))
	if len(errs) != 0 {
		return // rejected at admission: nothing to expand
	}
	for i := 0; i < 100; i++ {
		func() {
			defer func() {
				if r := recover(); r != nil {
					t.Fatalf("accepted spec cannot be expanded: GenerateIndexes panicked: %v", r)
				}
			}()
			if n := len(parallel.GenerateIndexes(spec)); n == 0 {
				t.Fatalf("accepted spec expands to no index at all")
			}
		}()
	}
}
