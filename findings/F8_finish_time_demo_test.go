// Demonstration of finding F8 (property C11), to be placed at pkg/execution/util/job/zz_f8_demo_test.go:
//   go test -vet=off -count=1 ./pkg/execution/util/job/ -run TestF8FinishTimeStable
// Fails on the pinned tree (010b678), passes after commit "fix: keep a task's recorded finish timestamp once it is set".
package job_test

import (
	"testing"
	"time"

	metav1 "k8s.io/apimachinery/pkg/apis/meta/v1"

	execution "github.com/furiko-io/furiko/apis/execution/v1alpha1"
	"github.com/furiko-io/furiko/pkg/execution/util/job"
)

type f8Task struct{ ref execution.TaskRef }

func (t f8Task) GetOwnerReferences() []metav1.OwnerReference       { return nil }
func (t f8Task) GetName() string                                    { return t.ref.Name }
func (t f8Task) GetTaskRef() execution.TaskRef                      { return t.ref }
func (t f8Task) GetKind() string                                    { return "Pod" }
func (t f8Task) GetRetryIndex() (int64, bool)                       { return 0, true }
func (t f8Task) GetParallelIndex() (*execution.ParallelIndex, bool) { return nil, false }
func (t f8Task) GetDeletionTimestamp() *metav1.Time                 { return nil }

func TestF8FinishTimeStable(t *testing.T) {
	t1 := metav1.NewTime(time.Unix(1000, 0))
	t2 := metav1.NewTime(time.Unix(2000, 0))
	existing := &execution.TaskRef{Name: "task", FinishTimestamp: &t1}
	// the task object now reports a different finish time (e.g. container termination time filled in later)
	got := job.GetTaskRef(existing, f8Task{execution.TaskRef{Name: "task", FinishTimestamp: &t2}})
	if !got.FinishTimestamp.Equal(&t1) {
		t.Fatalf("recorded finish time moved from %v to %v", t1, got.FinishTimestamp)
	}
}
