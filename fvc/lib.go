package main

// Built-in (trusted) models of library functions that need special term
// construction. Everything expressible as a contract lives in lib/*.spec.

import (
	"fmt"
	"go/token"
	"go/types"
	"strings"

	"golang.org/x/tools/go/ssa"
)

type nativeFn func(fr *Frame, st *State, args []Val, pos token.Pos) Val

var natives map[string]nativeFn

type pureNativeFn func(r *Run, env *SpecEnv, args []SV) SV

var pureNatives map[string]pureNativeFn

const nsPerSec = "1000000000"

func init() {
	pureNatives = map[string]pureNativeFn{}
	natives = map[string]nativeFn{
		"time.Now": nativeNow,
		"time.Since": func(fr *Frame, st *State, a []Val, p token.Pos) Val {
			return timeSub(fr.run.wallRead(st), fr.toTerm(a[0]))
		},
		"time.Until": func(fr *Frame, st *State, a []Val, p token.Pos) Val {
			return timeSub(fr.toTerm(a[0]), fr.run.clockRead(st))
		},
	}
	natives["fmt.Sprintf"] = func(fr *Frame, st *State, a []Val, p token.Pos) Val {
		return fr.formatCall(st, fr.curCall, a, "sprintf", 0, "Str")
	}
	natives["sort.Slice"] = nativeSortSlice
	natives["sort.SliceStable"] = nativeSortSlice
	natives["strconv.Itoa"] = func(fr *Frame, st *State, a []Val, p token.Pos) Val {
		return fr.run.itoa(fr.toTerm(a[0]))
	}
	natives["strconv.FormatInt"] = func(fr *Frame, st *State, a []Val, p token.Pos) Val {
		return fr.run.itoa(fr.toTerm(a[0])) // base is ignored: callers use base 10 (assumption)
	}
	pureNatives["strconv.Itoa"] = func(r *Run, env *SpecEnv, a []SV) SV { return SV{t: r.itoa(a[0].t), T: types.Typ[types.String]} }
	natives["fmt.Sprint"] = func(fr *Frame, st *State, a []Val, p token.Pos) Val {
		return fr.run.havoc("sprint", "Str")
	}
	for _, n := range []string{"log.Panicf", "log.Panic", "log.Fatalf", "log.Fatal", "k8s.io/klog/v2.Fatalf", "k8s.io/klog/v2.Fatal", "os.Exit"} {
		natives[n] = func(fr *Frame, st *State, a []Val, p token.Pos) Val {
			st.pc = tFalse // never returns
			return nil
		}
	}
	B := types.Typ[types.Bool]
	I64 := types.Typ[types.Int64]
	reg := func(name string, retT func(a []SV) types.Type, f func(r *Run, a []Term) Term) {
		pureNatives[name] = func(r *Run, env *SpecEnv, args []SV) SV {
			var ts []Term
			for _, a := range args {
				ts = append(ts, a.t)
			}
			return SV{t: f(r, ts), T: retT(args)}
		}
		natives[name] = func(fr *Frame, st *State, a []Val, p token.Pos) Val {
			var ts []Term
			for _, x := range a {
				ts = append(ts, fr.toTerm(x))
			}
			return f(fr.run, ts)
		}
	}
	constT := func(T types.Type) func([]SV) types.Type { return func([]SV) types.Type { return T } }
	firstT := func(a []SV) types.Type { return a[0].T }
	ns := func(t Term) Term { return app("Int", "t_ns", t) }
	reg("(time.Time).IsZero", constT(B), func(r *Run, a []Term) Term { return eq(ns(a[0]), Term{"time_zero_ns", "Int"}) })
	reg("(time.Time).Before", constT(B), func(r *Run, a []Term) Term { return app("Bool", "<", ns(a[0]), ns(a[1])) })
	reg("(time.Time).After", constT(B), func(r *Run, a []Term) Term { return app("Bool", ">", ns(a[0]), ns(a[1])) })
	reg("(time.Time).Equal", constT(B), func(r *Run, a []Term) Term { return eq(ns(a[0]), ns(a[1])) })
	reg("(time.Time).Compare", constT(types.Typ[types.Int]), func(r *Run, a []Term) Term {
		return ite(app("Bool", "<", ns(a[0]), ns(a[1])), intLit(-1), ite(app("Bool", ">", ns(a[0]), ns(a[1])), intLit(1), intLit(0)))
	})
	reg("(time.Time).Add", firstT, func(r *Run, a []Term) Term {
		return app("Time", "mk_time", app("Int", "+", ns(a[0]), a[1]), app("Int", "t_loc", a[0]))
	})
	reg("(time.Time).Sub", func(a []SV) types.Type { return durationType(a) }, func(r *Run, a []Term) Term { return timeSub(a[0], a[1]) })
	reg("(time.Time).Unix", constT(I64), func(r *Run, a []Term) Term { return app("Int", "div", ns(a[0]), Term{nsPerSec, "Int"}) })
	reg("(time.Time).UnixNano", constT(I64), func(r *Run, a []Term) Term { return ns(a[0]) })
	reg("(time.Time).UnixMilli", constT(I64), func(r *Run, a []Term) Term { return app("Int", "div", ns(a[0]), Term{"1000000", "Int"}) })
	reg("(time.Time).In", firstT, func(r *Run, a []Term) Term { return app("Time", "mk_time", ns(a[0]), a[1]) })
	reg("(time.Time).UTC", firstT, func(r *Run, a []Term) Term { return app("Time", "mk_time", ns(a[0]), intLit(0)) })
	reg("(time.Time).Local", firstT, func(r *Run, a []Term) Term { return app("Time", "mk_time", ns(a[0]), Term{"loc_local", "Int"}) })
	reg("(time.Time).Location", func(a []SV) types.Type { return nil }, func(r *Run, a []Term) Term { return app("Int", "t_loc", a[0]) })
	reg("time.Unix", func(a []SV) types.Type { return nil }, func(r *Run, a []Term) Term {
		return app("Time", "mk_time", app("Int", "+", app("Int", "*", a[0], Term{nsPerSec, "Int"}), a[1]), Term{"loc_local", "Int"})
	})
	// spec-only helpers
	pureNatives["ns"] = func(r *Run, env *SpecEnv, a []SV) SV { return SV{t: ns(a[0].t), T: types.Typ[types.UntypedInt]} }
}

func durationType(a []SV) types.Type { return types.Typ[types.Int64] }

func timeSub(a, b Term) Term {
	d := app("Int", "-", app("Int", "t_ns", a), app("Int", "t_ns", b))
	lo, hi := bigLit("-9223372036854775808"), bigLit("9223372036854775807")
	return ite(app("Bool", "<", d, lo), lo, ite(app("Bool", ">", d, hi), hi, d))
}

// clockRead returns a fresh reading of the (single) clock, not earlier than the previous reading.
func (r *Run) clockRead(st *State) Term {
	key := r.eng.declHeap("ghost|::clock", "gh_clock", "Int")
	prev := r.heapGet(st, key)
	now := r.havoc("now", "Int")
	r.assume(st, app("Bool", ">=", now, prev))
	// the clock is a real wall clock: after 1970 and before year 2262 (UnixNano representable)
	r.assume(st, and(app("Bool", ">", now, intLit(0)), app("Bool", "<", now, bigLit("9223372036854775807"))))
	st.heaps[key] = now
	r.noteAssume("all decision-clock reads (ktime.Clock, package Clock interfaces, time.Until) observe one monotone clock")
	return app("Time", "mk_time", now, Term{"loc_local", "Int"})
}

// wallRead: time.Now() / time.Since() of package time. The repository takes every time a *decision* depends on from the
// injectable clock (ktime.Clock, clock.Clock interfaces, and time.Until for wake-up delays); raw time.Now() only feeds
// elapsed-time logs and metrics. It is therefore modelled as an unconstrained reading that does NOT advance the ghost
// decision clock: adding a timing log to a function is not an effect, and code that would base a decision on raw
// time.Now() gets a value nothing is known about, so its never-early obligations fail.
func (r *Run) wallRead(st *State) Term {
	now := r.havoc("wall", "Int")
	r.assume(st, and(app("Bool", ">", now, intLit(0)), app("Bool", "<", now, bigLit("9223372036854775807"))))
	r.noteAssume("raw time.Now() / time.Since() (diagnostics only in this repository) are unconstrained wall-clock readings, separate from the injectable decision clock")
	return app("Time", "mk_time", now, Term{"loc_local", "Int"})
}

func nativeNow(fr *Frame, st *State, args []Val, pos token.Pos) Val { return fr.run.wallRead(st) }

// isClockInvoke: any interface method Now() time.Time is a clock read.
func isClockMethod(m *types.Func) bool {
	sig := m.Type().(*types.Signature)
	return m.Name() == "Now" && sig.Params().Len() == 0 && sig.Results().Len() == 1 && isTimeTime(sig.Results().At(0).Type())
}

// ---------------------------------------------------------------------------
// formatted strings: uninterpreted function of the format and the argument values

func staticSliceLen(v ssa.Value) (int64, bool) {
	switch x := v.(type) {
	case *ssa.Slice:
		if a, ok := x.X.(*ssa.Alloc); ok {
			if at, ok := deref(a.Type()).Underlying().(*types.Array); ok && x.Low == nil && x.High == nil {
				return at.Len(), true
			}
		}
	case *ssa.Const:
		if x.Value == nil {
			return 0, true
		}
	}
	return 0, false
}

// variadicArgs reads the elements of a variadic []interface{} argument of statically known length.
func (fr *Frame) variadicArgs(st *State, v ssa.Value, val Val) ([]Term, bool) {
	n, ok := staticSliceLen(v)
	if !ok {
		return nil, false
	}
	if n == 0 {
		return nil, true
	}
	r := fr.run
	s := fr.toTerm(val)
	et := types.Unalias(v.Type()).Underlying().(*types.Slice).Elem()
	A := r.heapGet(st, r.eng.heapKeyArr(et))
	inner := sel(A, app("Int", "sl_arr", s))
	var out []Term
	for i := int64(0); i < n; i++ {
		out = append(out, sel(inner, app("Int", "sl_ix", app("Int", "sl_off", s), intLit(i))))
	}
	return out, true
}

func (fr *Frame) formatCall(st *State, c *ssa.CallCommon, args []Val, fname string, fmtIdx int, retSort string) Term {
	r := fr.run
	var ts []Term
	for i := 0; i < fmtIdx; i++ {
		ts = append(ts, fr.toTerm(args[i]))
	}
	ts = append(ts, fr.toTerm(args[fmtIdx]))
	vs, ok := fr.variadicArgs(st, c.Args[fmtIdx+1], args[fmtIdx+1])
	if !ok {
		// unknown number of arguments: result is an unconstrained value
		return r.havoc("fmt", retSort)
	}
	ts = append(ts, vs...)
	var sorts []string
	for _, t := range ts {
		sorts = append(sorts, t.Sort)
	}
	n := fmt.Sprintf("%s_%d", fname, len(vs))
	r.eng.u.ufunc(n, sorts, retSort)
	return app(retSort, n, ts...)
}

func (e *Engine) isNoop(name string) bool {
	for _, p := range e.noops {
		if strings.HasPrefix(name, p) {
			return true
		}
	}
	return false
}

// closureTerm evaluates a side-effect-free closure on symbolic arguments as a term (usable under a binder).
func (fr *Frame) closureTerm(st *State, clo *Closure, args []Term) Term {
	r := fr.run
	r.noDef++
	r.noAssume++
	r.probing++
	h0, a0, c0 := r.havocN, r.allocN, r.ctr
	prevWrites, prevCtr0 := r.writes, r.probeCtr0
	r.writes, r.probeCtr0 = map[string][]string{}, r.ctr
	defer func() { r.noDef--; r.noAssume--; r.probing--; r.writes, r.probeCtr0 = prevWrites, prevCtr0 }()
	scratch := st.clone()
	var av []Val
	for _, a := range args {
		av = append(av, a)
	}
	out, res := r.execFunction(clo.Fn, av, clo.Bindings, scratch, false, nil)
	if out == nil || len(res) != 1 {
		unsupported("closure %s cannot be evaluated as a pure function", clo.Fn)
	}
	if r.havocN-h0 != r.allocN-a0 {
		unsupported("closure %s is not pure (calls with unknown results)", clo.Fn)
	}
	// writes are allowed only to cells allocated by the closure itself (address-taken locals)
	for k, ws := range r.writes {
		for _, w := range ws {
			if !r.isFreshRefSince(w, c0) {
				unsupported("closure %s writes to the heap (%s)", clo.Fn, k)
			}
		}
	}
	t, ok := res[0].(Term)
	if !ok {
		unsupported("closure %s result is not a term", clo.Fn)
	}
	return t
}

// sort.Slice(x, less): the elements of x are permuted so that less never holds between a later and an earlier element.
// (ASSUMED standard-library behaviour; the permutation is stated as mutual membership, not as a multiset equality.)
func nativeSortSlice(fr *Frame, st *State, args []Val, pos token.Pos) Val {
	r := fr.run
	c := fr.curCall
	mi, ok := c.Args[0].(*ssa.MakeInterface)
	if !ok {
		unsupported("sort.Slice on a non-literal interface value")
	}
	sl, ok := types.Unalias(mi.X.Type()).Underlying().(*types.Slice)
	if !ok {
		unsupported("sort.Slice on %s", mi.X.Type())
	}
	clo, ok := args[1].(*Closure)
	if !ok {
		unsupported("sort.Slice with a non-literal less function")
	}
	s := r.constOf(st, "srt", r.unboxIface(mi.X.Type(), fr.toTerm(args[0])))
	et := sl.Elem()
	key := r.eng.heapKeyArr(et)
	A := r.heapGet(st, key)
	es := r.eng.u.sortOf(et)
	as := arraySort("Int", es)
	arr, off, ln := app("Int", "sl_arr", s), app("Int", "sl_off", s), app("Int", "sl_len", s)
	O := r.constOf(st, "srtO", sel(A, arr))
	N := r.havoc("srtN", as)
	r.noteWrite(key, r.arrRefOf(s))
	r.heapSet(st, key, store(A, arr, N))
	inR := func(v string) string { return fmt.Sprintf("(and (<= 0 %s) (< %s %s))", v, v, ln.S) }
	ix := func(v string) string { return fmt.Sprintf("(sl_ix %s %s)", off.S, v) }
	// every new element is an old element and vice versa
	r.assume(st, Term{fmt.Sprintf("(forall ((i_ Int)) (! (=> %s (exists ((j_ Int)) (and %s (= (select %s %s) (select %s %s))))) :pattern ((select %s %s))))", inR("i_"), inR("j_"), N.S, ix("i_"), O.S, ix("j_"), N.S, ix("i_")), "Bool"})
	r.assume(st, Term{fmt.Sprintf("(forall ((j_ Int)) (! (=> %s (exists ((i_ Int)) (and %s (= (select %s %s) (select %s %s))))) :pattern ((select %s %s))))", inR("j_"), inR("i_"), N.S, ix("i_"), O.S, ix("j_"), O.S, ix("j_")), "Bool"})
	// cells outside the slice are untouched
	r.assume(st, Term{fmt.Sprintf("(forall ((k_ Int)) (! (=> (or (< k_ %s) (>= k_ (+ %s %s))) (= (select %s k_) (select %s k_))) :pattern ((select %s k_))))", off.S, off.S, ln.S, N.S, O.S, N.S), "Bool"})
	// sortedness w.r.t. the real less closure, evaluated in the new state
	less := fr.closureTerm(st, clo, []Term{{"j_", "Int"}, {"i_", "Int"}})
	r.assume(st, Term{fmt.Sprintf("(forall ((i_ Int) (j_ Int)) (=> (and (<= 0 i_) (< i_ j_) (< j_ %s)) (not %s)))", ln.S, less.S), "Bool"})
	r.noteAssume("sort.Slice leaves a permutation (mutual membership) ordered by the less function")
	return nil
}

// itoa: decimal rendering of an integer: an injective uninterpreted function
func (r *Run) itoa(n Term) Term {
	u := r.eng.u
	u.ufunc("str_itoa", []string{"Int"}, "Str")
	u.ufunc("str_atoi", []string{"Str"}, "Int")
	u.axiom("(forall ((n Int)) (! (= (str_atoi (str_itoa n)) n) :pattern ((str_itoa n))))")
	return app("Str", "str_itoa", n)
}
