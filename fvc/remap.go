package main

// Loop clauses are keyed by the ordinal of the loop within its function (`loop 2 invariant ...`). A harmless edit that
// moves a loop into a new unexported helper (extract function), or inlines such a helper, changes the ordinals, and the
// clauses no longer sit on the loops they were written for. remap attaches the clauses in *program order* instead: the
// loops of the function in source order, with the loops of every helper that has no contract of its own (and is therefore
// inlined by the verifier) inserted at the position of the call. It is only tried after the ordinary attempt has failed,
// and only accepted when every obligation of the function is discharged. As with rebind.go this is sound: loop
// invariants are proof hints, any inductive invariant that carries the unchanged ensures clauses is a valid proof.

import (
	"sort"

	"golang.org/x/tools/go/ssa"
)

func loopHeaders(fn *ssa.Function) map[*ssa.BasicBlock]bool {
	hs := map[*ssa.BasicBlock]bool{}
	for _, b := range fn.Blocks {
		for _, s := range b.Succs {
			if isBackEdge(b, s) {
				hs[s] = true
			}
		}
	}
	return hs
}

// loopProgramOrder returns the attachment header -> loop clauses, or nil when the numbers do not match.
func (e *Engine) loopProgramOrder(fn *ssa.Function, fc *FuncContract) map[*ssa.BasicBlock]*LoopSpec {
	var seq []*ssa.BasicBlock
	seen := map[*ssa.Function]bool{}
	var walk func(f *ssa.Function, depth int)
	walk = func(f *ssa.Function, depth int) {
		if seen[f] || depth > 4 || f.Blocks == nil {
			return
		}
		seen[f] = true
		hs := loopHeaders(f)
		for _, b := range f.Blocks {
			if hs[b] {
				seq = append(seq, b)
			}
			for _, ins := range b.Instrs {
				c, ok := ins.(ssa.CallInstruction)
				if !ok {
					continue
				}
				if _, isGo := ins.(*ssa.Go); isGo {
					continue
				}
				callee := c.Common().StaticCallee()
				if callee == nil || callee.Blocks == nil || !e.inRepo(callee) {
					continue
				}
				name := callee.String()
				if callee.Origin() != nil {
					name = callee.Origin().String()
				}
				if e.isNoop(name) {
					continue
				}
				if _, nat := natives[name]; nat {
					continue
				}
				if e.contractFor(callee) != nil {
					continue // has its own contract (and its own loop clauses)
				}
				walk(callee, depth+1)
			}
		}
	}
	walk(fn, 0)
	var ords []int
	for o := range fc.Loops {
		ords = append(ords, o)
	}
	sort.Ints(ords)
	if len(ords) == 0 || len(ords) != len(seq) {
		return nil
	}
	m := map[*ssa.BasicBlock]*LoopSpec{}
	for i, h := range seq {
		m[h] = fc.Loops[ords[i]]
	}
	return m
}

// loopsMoved: the function's own loops are not exactly the loops the contract has clauses for (so remapping can help).
func (e *Engine) loopsMoved(fc *FuncContract) bool {
	if len(fc.Loops) == 0 {
		return false
	}
	fn := e.findFunc(fc.PkgPath, fc.Key)
	if fn == nil {
		return false
	}
	own := len(loopHeaders(fn))
	max := 0
	for o := range fc.Loops {
		if o > max {
			max = o
		}
	}
	if own < max {
		return true
	}
	m := e.loopProgramOrder(fn, fc)
	if m == nil {
		return false
	}
	// program order differs from the ordinals only if some attached header lies outside fn
	for h := range m {
		if h.Parent() != fn {
			return true
		}
	}
	return false
}
