package main

// Interface calls to ObjectMeta accessors (metav1.Object, furiko's Annotatable / Labelable ...): resolved by a
// case split over the API object types that embed metav1.ObjectMeta (trusted model of one-line getters/setters).

import (
	"go/token"
	"go/types"

	"golang.org/x/tools/go/ssa"
)

var objMetaGetters = map[string]string{
	"GetName": "Name", "GetNamespace": "Namespace", "GetUID": "UID", "GetLabels": "Labels", "GetAnnotations": "Annotations",
	"GetFinalizers": "Finalizers", "GetDeletionTimestamp": "DeletionTimestamp", "GetOwnerReferences": "OwnerReferences",
	"GetCreationTimestamp": "CreationTimestamp", "GetGenerateName": "GenerateName", "GetResourceVersion": "ResourceVersion", "GetGeneration": "Generation",
}
var objMetaSetters = map[string]string{
	"SetAnnotations": "Annotations", "SetLabels": "Labels", "SetFinalizers": "Finalizers", "SetOwnerReferences": "OwnerReferences",
	"SetName": "Name", "SetNamespace": "Namespace",
}

func (e *Engine) objectTypes() []types.Type {
	var out []types.Type
	for _, c := range []struct{ pkg, name string }{
		{"github.com/furiko-io/furiko/apis/execution/v1alpha1", "Job"},
		{"github.com/furiko-io/furiko/apis/execution/v1alpha1", "JobConfig"},
		{"k8s.io/api/core/v1", "Pod"},
		{"k8s.io/api/core/v1", "ConfigMap"},
		{"k8s.io/api/core/v1", "Secret"},
		{"k8s.io/apimachinery/pkg/apis/meta/v1", "ObjectMeta"},
	} {
		if p := e.typesPkgs[c.pkg]; p != nil {
			if tn, ok := p.Scope().Lookup(c.name).(*types.TypeName); ok {
				out = append(out, tn.Type())
			}
		}
	}
	return out
}

// objMetaInvoke handles recv.GetX() / recv.SetX(v) on an interface value; ok=false if not an accessor.
func (fr *Frame) objMetaInvoke(st *State, c *ssa.CallCommon, recv Val, args []Val, pos token.Pos) (Val, bool) {
	r := fr.run
	u := r.eng.u
	name := c.Method.Name()
	field, isGet := objMetaGetters[name]
	if !isGet {
		var isSet bool
		field, isSet = objMetaSetters[name]
		if !isSet {
			return nil, false
		}
	}
	sig := c.Signature()
	if isGet && (sig.Params().Len() != 0 || sig.Results().Len() != 1) {
		return nil, false
	}
	if !isGet && (sig.Params().Len() != 1 || sig.Results().Len() != 0) {
		return nil, false
	}
	rv := fr.toTerm(recv)
	tag := app("Int", "if_tag", rv)
	ptr := app("Int", "if_val", rv)
	r.natives["ObjectMeta accessor via interface: "+name] = true
	if isGet {
		RT := sig.Results().At(0).Type()
		res := r.havoc("om", u.sortOf(RT))
		r.knownFacts(st, res, RT)
		var out Term = res
		for _, T := range r.eng.objectTypes() {
			obj, idx, _ := types.LookupFieldOrMethod(T, true, nil, field)
			fv, ok := obj.(*types.Var)
			if !ok || !types.Identical(fv.Type(), RT) {
				continue
			}
			cur := sel(r.heapGet(st, r.eng.heapKeyObj(T)), ptr)
			CT := T
			for _, i := range idx {
				stt := types.Unalias(CT).Underlying().(*types.Struct)
				cur = u.fieldSel(CT, i, cur)
				CT = stt.Field(i).Type()
			}
			out = ite(eq(tag, u.typeID(types.NewPointer(T))), cur, out)
		}
		return r.def("om", out), true
	}
	v := fr.toTerm(args[0])
	r.noteAssume("ObjectMeta setters called through an interface: the receiver is a *Job, *JobConfig, *Pod, *ConfigMap, *Secret or *ObjectMeta")
	for _, T := range r.eng.objectTypes() {
		obj, idx, _ := types.LookupFieldOrMethod(T, true, nil, field)
		fv, ok := obj.(*types.Var)
		if !ok || !types.Identical(fv.Type(), sig.Params().At(0).Type()) {
			continue
		}
		key := r.eng.heapKeyObj(T)
		loc := &Loc{kind: rootHeap, T: T, ref: ptr, typ: T}
		CT := T
		for _, i := range idx {
			stt := types.Unalias(CT).Underlying().(*types.Struct)
			loc = loc.extend(PathEl{field: i, contT: CT}, stt.Field(i).Type())
			CT = stt.Field(i).Type()
		}
		s1 := st.clone()
		r.writeLoc(s1, loc, v)
		r.heapSet(st, key, ite(eq(tag, u.typeID(types.NewPointer(T))), r.heapGet(s1, key), r.heapGet(st, key)))
	}
	return nil, true
}
