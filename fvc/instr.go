package main

import (
	"fmt"
	"go/token"
	"go/types"
	"strings"

	"golang.org/x/tools/go/ssa"
)

func (fr *Frame) set(v ssa.Value, x Val) {
	if t, ok := x.(Term); ok {
		x = fr.run.def(v.Name(), t)
	}
	fr.vals[v] = x
}

func deref(T types.Type) types.Type {
	if p, ok := types.Unalias(T).Underlying().(*types.Pointer); ok {
		return p.Elem()
	}
	panic(fmt.Sprintf("deref of non-pointer %s", T))
}

func (fr *Frame) allocFresh(st *State, T types.Type, init Term) Term {
	r := fr.run
	r.allocN++
	ref := r.havoc("new", "Int")
	wmKey := r.eng.heapKeyAlloc()
	wm := r.heapGet(st, wmKey)
	r.assume(st, app("Bool", ">", ref, wm))
	r.assume(st, app("Bool", ">", ref, intLit(0)))
	r.heapSet(st, wmKey, ref)
	return ref
}

func (r *Run) allocated(st *State, t Term) Term {
	wm := r.heapGet(st, r.eng.heapKeyAlloc())
	return app("Bool", "<=", t, wm)
}

// knownFacts: facts assumed of a value of type T that comes from memory / parameters / calls.
func (r *Run) knownFacts(st *State, t Term, T types.Type) {
	T = types.Unalias(T)
	if isTimeTime(T) {
		r.assume(st, app("Bool", "wf_time", t))
		r.noteAssume("time.Time values denote instants in years 1..9999 (what metav1.Time can serialise)")
		return
	}
	switch tt := T.Underlying().(type) {
	case *types.Basic:
		if tt.Info()&types.IsInteger != 0 {
			r.assume(st, inRange(t, T))
		}
	case *types.Slice:
		r.assume(st, app("Bool", "wf_slice", t))
		r.assume(st, app("Bool", "<=", app("Int", "sl_arr", t), r.heapGet(st, r.eng.heapKeyAlloc())))
	case *types.Pointer, *types.Map, *types.Chan:
		r.assume(st, r.allocated(st, t))
	case *types.Interface:
		r.assume(st, app("Bool", "wf_iface", t))
		r.assume(st, app("Bool", "<=", app("Int", "if_val", t), r.heapGet(st, r.eng.heapKeyAlloc())))
	case *types.Struct:
		r.assume(st, r.eng.u.okTerm(T, t, r.heapGet(st, r.eng.heapKeyAlloc())))
		// slice-typed fields of a struct value are well-formed slices (one level)
		si := r.eng.u.structOf(T)
		for i := 0; i < tt.NumFields(); i++ {
			if _, ok := types.Unalias(tt.Field(i).Type()).Underlying().(*types.Slice); ok {
				r.assume(st, app("Bool", "wf_slice", app("Slice", si.fields[i], t)))
			}
		}
	}
}

func (fr *Frame) nilCheck(st *State, p Term, pos token.Pos, what string) {
	fr.safety(st, "nil", not(eq(p, intLit(0))), pos, "nil dereference: "+what)
}

func (fr *Frame) locNilCheck(st *State, l *Loc, pos token.Pos) {
	if l.kind == rootHeap {
		fr.nilCheck(st, l.ref, pos, shortTypeName(l.T))
	}
}

func (fr *Frame) execInstr(ins ssa.Instruction, st *State) {
	r := fr.run
	u := r.eng.u
	switch x := ins.(type) {
	case *ssa.DebugRef:
		return
	case *ssa.Alloc:
		T := deref(x.Type())
		if x.Heap {
			ref := fr.allocFresh(st, T, Term{})
			key := r.eng.heapKeyObj(T)
			r.heapSet(st, key, store(r.heapGet(st, key), ref, u.zeroOf(T)))
			fr.vals[x] = ref
		} else {
			if strings.HasPrefix(shortTypeName(T), "$ssa.") || shortTypeName(T) == "deferStack" {
				fr.vals[x] = &Loc{kind: rootLocal, alloc: x, T: T, typ: T}
				return
			}
			st.locals[x] = u.zeroOf(T)
			fr.vals[x] = &Loc{kind: rootLocal, alloc: x, T: T, typ: T}
		}
	case *ssa.Store:
		addr := fr.val(x.Addr)
		T := deref(x.Addr.Type())
		if strings.HasPrefix(shortTypeName(T), "$ssa.") || shortTypeName(T) == "deferStack" {
			return
		}
		v := fr.term(x.Val)
		if al, ok := x.Addr.(*ssa.Alloc); ok && al.Heap {
			// remember on which allocation a captured slice variable currently lives (see loop.go: owned accumulators)
			if r.cellOrigin == nil {
				r.cellOrigin = map[*ssa.Alloc]string{}
			}
			if o, ok := r.sliceArr[v.S]; ok {
				r.cellOrigin[al] = o
			} else if v.S == "slice_nil" {
				r.cellOrigin[al] = "new_own"
			} else {
				delete(r.cellOrigin, al)
			}
		}
		switch a := addr.(type) {
		case *Loc:
			fr.locNilCheck(st, a, x.Pos())
			r.writeLoc(st, a, v)
		case Term:
			fr.nilCheck(st, a, x.Pos(), shortTypeName(T))
			r.writeLoc(st, &Loc{kind: rootHeap, T: T, ref: a, typ: T}, v)
		default:
			unsupported("store to %T", addr)
		}
	case *ssa.UnOp:
		fr.execUnOp(x, st)
	case *ssa.BinOp:
		fr.set(x, fr.binop(st, x.Op, fr.term(x.X), fr.term(x.Y), x.X.Type(), x.Type(), x.Pos()))
	case *ssa.FieldAddr:
		base := fr.val(x.X)
		ST := deref(x.X.Type())
		ftyp := ST.Underlying().(*types.Struct).Field(x.Field).Type()
		pe := PathEl{field: x.Field, contT: ST}
		switch b := base.(type) {
		case *Loc:
			fr.vals[x] = b.extend(pe, ftyp)
		case Term:
			fr.vals[x] = (&Loc{kind: rootHeap, T: ST, ref: b, typ: ST}).extend(pe, ftyp)
		default:
			unsupported("fieldaddr on %T", base)
		}
	case *ssa.Field:
		t := fr.term(x.X)
		fr.set(x, fr.fieldOf(x.X.Type(), x.Field, t))
	case *ssa.IndexAddr:
		idx := fr.term(x.Index)
		switch xt := types.Unalias(x.X.Type()).Underlying().(type) {
		case *types.Slice:
			s := fr.term(x.X)
			fr.safety(st, "index", and(app("Bool", "<=", intLit(0), idx), app("Bool", "<", idx, app("Int", "sl_len", s))), x.Pos(), "slice index in range")
			fr.vals[x] = &Loc{kind: rootElem, T: xt.Elem(), ref: s, idx: idx, typ: xt.Elem()}
		case *types.Pointer:
			at := xt.Elem().Underlying().(*types.Array)
			fr.safety(st, "index", and(app("Bool", "<=", intLit(0), idx), app("Bool", "<", idx, intLit(at.Len()))), x.Pos(), "array index in range")
			pe := PathEl{field: -1, idx: idx, contT: xt.Elem()}
			switch b := fr.val(x.X).(type) {
			case *Loc:
				fr.vals[x] = b.extend(pe, at.Elem())
			case Term:
				fr.vals[x] = (&Loc{kind: rootHeap, T: xt.Elem(), ref: b, typ: xt.Elem()}).extend(pe, at.Elem())
			}
		default:
			unsupported("indexaddr on %s", x.X.Type())
		}
	case *ssa.Index:
		idx := fr.term(x.Index)
		switch xt := types.Unalias(x.X.Type()).Underlying().(type) {
		case *types.Array:
			fr.set(x, sel(fr.term(x.X), idx))
		case *types.Basic: // string
			s := fr.term(x.X)
			u.ufunc("str_at", []string{"Str", "Int"}, "Int")
			fr.safety(st, "index", and(app("Bool", "<=", intLit(0), idx), app("Bool", "<", idx, app("Int", "str_len", s))), x.Pos(), "string index in range")
			fr.set(x, app("Int", "str_at", s, idx))
		default:
			_ = xt
			unsupported("index on %s", x.X.Type())
		}
	case *ssa.Lookup:
		fr.execLookup(x, st)
	case *ssa.MapUpdate:
		m := fr.term(x.Map)
		mt := types.Unalias(x.Map.Type()).Underlying().(*types.Map)
		k := fr.term(x.Key)
		v := fr.term(x.Value)
		fr.safety(st, "nilmap-write", not(eq(m, intLit(0))), x.Pos(), "write to nil map")
		r.mapStore(st, mt, m, k, v)
	case *ssa.MakeMap:
		mt := types.Unalias(x.Type()).Underlying().(*types.Map)
		ref := fr.allocFresh(st, mt, Term{})
		hk, lk := r.eng.heapKeyMapHas(mt), r.eng.heapKeyMapLen(mt)
		ks := u.sortOf(mt.Key())
		r.heapSet(st, hk, store(r.heapGet(st, hk), ref, Term{fmt.Sprintf("((as const %s) false)", arraySort(ks, "Bool")), arraySort(ks, "Bool")}))
		r.heapSet(st, lk, store(r.heapGet(st, lk), ref, intLit(0)))
		fr.vals[x] = ref
	case *ssa.MakeSlice:
		et := types.Unalias(x.Type()).Underlying().(*types.Slice).Elem()
		ln := fr.term(x.Len)
		cp := fr.term(x.Cap)
		fr.safety(st, "alloc", and(app("Bool", "<=", intLit(0), ln), app("Bool", "<=", ln, cp), app("Bool", "<=", cp, Term{"max_alloc", "Int"})), x.Pos(), "make([]T, n): 0 <= n <= cap <= max_alloc")
		ref := fr.allocFresh(st, et, Term{})
		key := r.eng.heapKeyArr(et)
		es := u.sortOf(et)
		r.heapSet(st, key, store(r.heapGet(st, key), ref, u.constArray("Int", es, u.zeroOf(et))))
		fr.set(x, app("Slice", "mk_slice", ref, intLit(0), ln, cp))
		r.recordSliceArr(fr.vals[x], ref)
	case *ssa.Slice:
		fr.execSlice(x, st)
	case *ssa.MakeInterface:
		fr.set(x, r.makeIface(x.X.Type(), fr.termOrLoc(x.X, st)))
	case *ssa.ChangeInterface:
		fr.vals[x] = fr.val(x.X)
	case *ssa.ChangeType:
		fr.vals[x] = fr.val(x.X)
	case *ssa.Convert:
		fr.set(x, fr.convert(st, fr.term(x.X), x.X.Type(), x.Type(), x.Pos()))
	case *ssa.MultiConvert:
		fr.set(x, fr.convert(st, fr.term(x.X), x.X.Type(), x.Type(), x.Pos()))
	case *ssa.TypeAssert:
		fr.execTypeAssert(x, st)
	case *ssa.Extract:
		tv := fr.val(x.Tuple)
		tup, ok := tv.(Tuple)
		if !ok {
			unsupported("extract from non-tuple %T", tv)
		}
		fr.vals[x] = tup[x.Index]
	case *ssa.Phi:
		b := x.Block()
		var v Val
		first := true
		for i := len(x.Edges) - 1; i >= 0; i-- {
			p := b.Preds[i]
			es, ok := fr.edges[[2]int{p.Index, b.Index}]
			if !ok {
				continue
			}
			ev := fr.val(x.Edges[i])
			if first {
				v = ev
				first = false
			} else {
				v = r.iteVal(es.pc, ev, v)
			}
		}
		if first {
			unsupported("phi without incoming edge")
		}
		if t, ok := v.(Term); ok {
			fr.set(x, t)
		} else {
			fr.vals[x] = v
		}
	case *ssa.MakeClosure:
		var bs []Val
		for _, b := range x.Bindings {
			bs = append(bs, fr.val(b))
		}
		fr.vals[x] = &Closure{Fn: x.Fn.(*ssa.Function), Bindings: bs}
	case *ssa.Call:
		res := fr.call(st, &x.Call, x, x.Pos())
		if res != nil {
			if t, ok := res.(Term); ok {
				fr.set(x, t)
			} else {
				fr.vals[x] = res
			}
		}
	case *ssa.Defer:
		var args []Val
		for _, a := range x.Call.Args {
			args = append(args, fr.val(a))
		}
		var fv Val
		if !x.Call.IsInvoke() {
			fv = fr.val(x.Call.Value)
		} else {
			fv = fr.val(x.Call.Value)
		}
		fr.defers = append(fr.defers, deferRec{pc: st.pc, call: &x.Call, args: args, fn: fv, pos: x.Pos()})
	case *ssa.RunDefers:
		for i := len(fr.defers) - 1; i >= 0; i-- {
			d := fr.defers[i]
			if _, inLoop := fr.inAnyLoop(ins.Block()); inLoop {
				unsupported("rundefers inside loop")
			}
			if d.pc.S == fr.entry.pc.S || d.pc.S == st.pc.S {
				fr.callResolved(st, d.call, d.fn, d.args, nil, d.pos)
				continue
			}
			s1 := st.clone()
			s1.pc = r.newPC(and(st.pc, d.pc), st.pc)
			fr.callResolved(s1, d.call, d.fn, d.args, nil, d.pos)
			s2 := st.clone()
			s2.pc = r.newPC(and(st.pc, not(d.pc)), st.pc)
			m := r.merge([]*State{s1, s2})
			*st = *m
		}
	case *ssa.Range:
		fr.execRange(x, st)
	case *ssa.Next:
		fr.execNext(x, st)
	case *ssa.Go:
		unsupported("go statement")
	case *ssa.Select:
		fr.execSelect(x, st)
	case *ssa.Send:
		fr.execSend(x, st)
	case *ssa.MakeChan:
		unsupported("make(chan)")
	case *ssa.SliceToArrayPointer:
		unsupported("slice to array pointer")
	default:
		unsupported("instruction %T (%s)", ins, ins)
	}
}

func (fr *Frame) inAnyLoop(b *ssa.BasicBlock) (*loopInfo, bool) {
	for _, li := range fr.loops {
		if li.blocks[b] {
			return li, true
		}
	}
	return nil, false
}

// termOrLoc: value as term; struct-typed locals etc. are always terms; *Loc pointers become refs when possible.
func (fr *Frame) termOrLoc(v ssa.Value, st *State) Term {
	return fr.term(v)
}

func (fr *Frame) fieldOf(T types.Type, i int, t Term) Term {
	return fr.run.eng.u.fieldSel(T, i, t)
}

func (fr *Frame) execUnOp(x *ssa.UnOp, st *State) {
	r := fr.run
	switch x.Op {
	case token.MUL: // load
		T := x.Type()
		if strings.HasPrefix(shortTypeName(T), "$ssa.") || shortTypeName(T) == "deferStack" {
			fr.vals[x] = Term{"0", "Int"}
			return
		}
		addr := fr.val(x.X)
		var t Term
		switch a := addr.(type) {
		case *Loc:
			fr.locNilCheck(st, a, x.Pos())
			t = r.readLoc(st, a)
		case Term:
			fr.nilCheck(st, a, x.Pos(), shortTypeName(T))
			t = sel(r.heapGet(st, r.eng.heapKeyObj(T)), a)
		default:
			unsupported("load from %T", addr)
		}
		fr.set(x, t)
		if _, isFn := types.Unalias(T).Underlying().(*types.Signature); isFn {
			// remember from which struct field a function value was loaded (dynamic calls are resolved by `dyn T.Field` contracts)
			if l, ok := addr.(*Loc); ok && len(l.path) > 0 && l.path[len(l.path)-1].field >= 0 {
				pe := l.path[len(l.path)-1]
				if n, ok := types.Unalias(pe.contT).(*types.Named); ok {
					if r.funcProv == nil {
						r.funcProv = map[string]string{}
					}
					stt := pe.contT.Underlying().(*types.Struct)
					if tv, ok := fr.vals[x].(Term); ok {
						r.funcProv[tv.S] = typeKey(n) + "." + stt.Field(pe.field).Name()
					}
				}
			}
		}
		if al, ok := x.X.(*ssa.Alloc); ok && al.Heap {
			if o, ok := r.cellOrigin[al]; ok {
				r.recordSliceTag(fr.vals[x], o)
			}
		}
		if l, ok := addr.(*Loc); !ok || l.kind != rootLocal {
			r.knownFacts(st, fr.vals[x].(Term), T)
		}
	case token.NOT:
		fr.set(x, not(fr.term(x.X)))
	case token.SUB:
		t := fr.term(x.X)
		if t.Sort == "Real" {
			fr.set(x, app("Real", "-", t))
			return
		}
		res := app("Int", "-", t)
		fr.overflow(st, res, x.Type(), x.Pos(), "neg")
		fr.set(x, res)
	case token.XOR:
		r.eng.u.ufunc("bit_not", []string{"Int"}, "Int")
		fr.set(x, app("Int", "bit_not", fr.term(x.X)))
	case token.ARROW:
		fr.execRecv(x, st)
	default:
		unsupported("unop %s", x.Op)
	}
}

func (fr *Frame) overflow(st *State, res Term, T types.Type, pos token.Pos, op string) {
	b, ok := types.Unalias(T).Underlying().(*types.Basic)
	if !ok || b.Info()&types.IsInteger == 0 {
		return
	}
	if b.Info()&types.IsUnsigned != 0 {
		return // unsigned wrap-around is defined behaviour and used deliberately (hashes); not modelled
	}
	fr.safety(st, "overflow", inRange(res, T), pos, "signed "+op+" does not overflow "+b.Name())
}

func isString(T types.Type) bool {
	b, ok := types.Unalias(T).Underlying().(*types.Basic)
	return ok && b.Info()&types.IsString != 0
}
func isFloat(T types.Type) bool {
	b, ok := types.Unalias(T).Underlying().(*types.Basic)
	return ok && b.Info()&types.IsFloat != 0
}
func isInteger(T types.Type) bool {
	b, ok := types.Unalias(T).Underlying().(*types.Basic)
	return ok && b.Info()&types.IsInteger != 0
}

func (fr *Frame) binop(st *State, op token.Token, a, b Term, opT, resT types.Type, pos token.Pos) Term {
	r := fr.run
	u := r.eng.u
	switch op {
	case token.EQL:
		return eq(a, b)
	case token.NEQ:
		return not(eq(a, b))
	}
	if isString(opT) {
		switch op {
		case token.ADD:
			return u.strConcat(a, b)
		case token.LSS, token.LEQ, token.GTR, token.GEQ:
			u.ufunc("str_lt", []string{"Str", "Str"}, "Bool")
			u.axiom("(forall ((a Str) (b Str)) (! (=> (str_lt a b) (not (str_lt b a))) :pattern ((str_lt a b))))")
			u.axiom("(forall ((a Str)) (! (not (str_lt a a)) :pattern ((str_lt a a))))")
			u.axiom("(forall ((a Str) (b Str)) (! (or (str_lt a b) (str_lt b a) (= a b)) :pattern ((str_lt a b))))")
			switch op {
			case token.LSS:
				return app("Bool", "str_lt", a, b)
			case token.GTR:
				return app("Bool", "str_lt", b, a)
			case token.LEQ:
				return not(app("Bool", "str_lt", b, a))
			default:
				return not(app("Bool", "str_lt", a, b))
			}
		}
		unsupported("string binop %s", op)
	}
	if a.Sort == "Real" || b.Sort == "Real" {
		switch op {
		case token.ADD, token.SUB, token.MUL, token.QUO:
			o := map[token.Token]string{token.ADD: "+", token.SUB: "-", token.MUL: "*", token.QUO: "/"}[op]
			return app("Real", o, a, b)
		case token.LSS, token.LEQ, token.GTR, token.GEQ:
			return app("Bool", op.String(), a, b)
		}
		unsupported("float binop %s", op)
	}
	if a.Sort == "Bool" {
		switch op {
		case token.AND, token.LAND:
			return and(a, b)
		case token.OR, token.LOR:
			return or(a, b)
		}
	}
	switch op {
	case token.ADD, token.SUB, token.MUL:
		o := map[token.Token]string{token.ADD: "+", token.SUB: "-", token.MUL: "*"}[op]
		res := app("Int", o, a, b)
		fr.overflow(st, res, resT, pos, map[token.Token]string{token.ADD: "add", token.SUB: "sub", token.MUL: "mul"}[op])
		if bt, ok := types.Unalias(resT).Underlying().(*types.Basic); ok && bt.Info()&types.IsUnsigned != 0 {
			// unsigned arithmetic wraps
			_, hi, ok := intRange(bt)
			if ok {
				res = app("Int", "mod", res, app("Int", "+", bigLit(hi), intLit(1)))
			}
		}
		return res
	case token.QUO:
		fr.safety(st, "div0", not(eq(b, intLit(0))), pos, "division by zero")
		return app("Int", "go_div", a, b)
	case token.REM:
		fr.safety(st, "div0", not(eq(b, intLit(0))), pos, "division by zero")
		return app("Int", "go_rem", a, b)
	case token.LSS, token.LEQ, token.GTR, token.GEQ:
		return app("Bool", op.String(), a, b)
	case token.AND, token.OR, token.XOR, token.SHL, token.SHR, token.AND_NOT:
		n := map[token.Token]string{token.AND: "bit_and", token.OR: "bit_or", token.XOR: "bit_xor", token.SHL: "bit_shl", token.SHR: "bit_shr", token.AND_NOT: "bit_andnot"}[op]
		u.ufunc(n, []string{"Int", "Int"}, "Int")
		return app("Int", n, a, b)
	}
	unsupported("binop %s", op)
	return Term{}
}

func (fr *Frame) convert(st *State, t Term, from, to types.Type, pos token.Pos) Term {
	r := fr.run
	u := r.eng.u
	from, to = types.Unalias(from), types.Unalias(to)
	fs, ts := u.sortOf(from), u.sortOf(to)
	switch {
	case isInteger(from) && isInteger(to):
		tb := to.Underlying().(*types.Basic)
		fb := from.Underlying().(*types.Basic)
		flo, fhi, _ := intRange(fb)
		tlo, thi, _ := intRange(tb)
		if flo == tlo && fhi == thi {
			return t
		}
		// narrowing or sign change: obligation that the value fits (otherwise wraps: modelled as uninterpreted)
		fits := inRange(t, to)
		fr.safety(st, "overflow", fits, pos, "integer conversion "+fb.Name()+"->"+tb.Name()+" preserves value")
		u.ufunc("wrap_"+tb.Name(), []string{"Int"}, "Int")
		return ite(fits, t, app("Int", "wrap_"+tb.Name(), t))
	case isInteger(from) && isFloat(to):
		return app("Real", "to_real", t)
	case isFloat(from) && isInteger(to):
		u.ufunc("float_to_int", []string{"Real"}, "Int")
		return app("Int", "float_to_int", t)
	case isFloat(from) && isFloat(to):
		return t
	case fs == "Str" && ts == "Str":
		return t
	case fs == "Str" && ts == "Slice":
		n := "str_to_" + mangle(shortTypeName(to))
		u.ufunc(n, []string{"Str"}, "Slice")
		return app("Slice", n, t)
	case fs == "Slice" && ts == "Str":
		n := "str_from_" + mangle(shortTypeName(from))
		u.ufunc(n, []string{"Slice"}, "Str")
		return app("Str", n, t)
	case fs == "Int" && ts == "Str":
		u.ufunc("str_from_rune", []string{"Int"}, "Str")
		return app("Str", "str_from_rune", t)
	case fs == ts:
		return t
	}
	unsupported("conversion %s -> %s", from, to)
	return Term{}
}

// ---------------------------------------------------------------------------
// interfaces

func (r *Run) boxFuncs(sort string) (string, string) {
	m := mangle(sort)
	bx, ub := "box_"+m, "unbox_"+m
	r.eng.u.ufunc(bx, []string{sort}, "Int")
	r.eng.u.ufunc(ub, []string{"Int"}, sort)
	r.eng.u.axiom(fmt.Sprintf("(forall ((x %s)) (! (and (= (%s (%s x)) x) (< (%s x) 0)) :pattern ((%s x))))", sort, ub, bx, bx, bx))
	return bx, ub
}

func (r *Run) makeIface(T types.Type, v Term) Term {
	u := r.eng.u
	T = types.Unalias(T)
	if _, isIf := T.Underlying().(*types.Interface); isIf {
		return v
	}
	tag := u.typeID(T)
	s := u.sortOf(T)
	if s == "Int" {
		if _, ok := T.Underlying().(*types.Basic); !ok {
			return app("Iface", "mk_iface", tag, v)
		}
	}
	bx, _ := r.boxFuncs(s)
	return app("Iface", "mk_iface", tag, app("Int", bx, v))
}

func (r *Run) unboxIface(T types.Type, v Term) Term {
	u := r.eng.u
	T = types.Unalias(T)
	s := u.sortOf(T)
	val := app("Int", "if_val", v)
	if s == "Int" {
		if _, ok := T.Underlying().(*types.Basic); !ok {
			return val
		}
	}
	_, ub := r.boxFuncs(s)
	return app(s, ub, val)
}

func (fr *Frame) execTypeAssert(x *ssa.TypeAssert, st *State) {
	r := fr.run
	u := r.eng.u
	v := fr.term(x.X)
	T := types.Unalias(x.AssertedType)
	var ok, res Term
	if _, isIf := T.Underlying().(*types.Interface); isIf {
		n := "implements_" + mangle(shortTypeName(T))
		u.ufunc(n, []string{"Int"}, "Bool")
		ok = and(not(eq(v, Term{"iface_nil", "Iface"})), app("Bool", n, app("Int", "if_tag", v)))
		if it := T.Underlying().(*types.Interface); it.NumMethods() == 0 {
			ok = not(eq(v, Term{"iface_nil", "Iface"}))
		}
		res = ite(ok, v, Term{"iface_nil", "Iface"})
	} else {
		ok = eq(app("Int", "if_tag", v), u.typeID(T))
		res = ite(ok, r.unboxIface(T, v), u.zeroOf(T))
		// an interface value of dynamic type T is the boxing of its payload
		r.assume(st, implies(ok, eq(v, r.makeIface(T, r.unboxIface(T, v)))))
	}
	if x.CommaOk {
		rt := r.def(x.Name(), res)
		// the payload is a well-formed value of its type (zero value otherwise)
		r.knownFacts(st, rt, T)
		fr.vals[x] = Tuple{rt, r.def(x.Name()+"ok", ok)}
		return
	}
	fr.safety(st, "assert-type", ok, x.Pos(), "type assertion to "+shortTypeName(T)+" succeeds")
	fr.set(x, res)
	if t, isT := fr.vals[x].(Term); isT {
		r.knownFacts(st, t, T)
	}
}

// ---------------------------------------------------------------------------
// maps

func (r *Run) mapHas(st *State, mt *types.Map, m, k Term) Term {
	return sel(sel(r.heapGet(st, r.eng.heapKeyMapHas(mt)), m), k)
}
func (r *Run) mapVal(st *State, mt *types.Map, m, k Term) Term {
	return sel(sel(r.heapGet(st, r.eng.heapKeyMapVal(mt)), m), k)
}
func (r *Run) mapLen(st *State, mt *types.Map, m Term) Term {
	return sel(r.heapGet(st, r.eng.heapKeyMapLen(mt)), m)
}

func (r *Run) recordSliceTag(v Val, tag string) {
	if t, ok := v.(Term); ok {
		if r.sliceArr == nil {
			r.sliceArr = map[string]string{}
		}
		r.sliceArr[t.S] = tag
	}
}

func (r *Run) recordSliceArr(v Val, ref Term) {
	if t, ok := v.(Term); ok {
		if r.sliceArr == nil {
			r.sliceArr = map[string]string{}
		}
		r.sliceArr[t.S] = ref.S
	}
}

func (r *Run) mapStore(st *State, mt *types.Map, m, k, v Term) {
	hk, vk, lk := r.eng.heapKeyMapHas(mt), r.eng.heapKeyMapVal(mt), r.eng.heapKeyMapLen(mt)
	for _, key := range []string{hk, vk, lk} {
		r.noteWrite(key, m.S)
	}
	H, V, L := r.heapGet(st, hk), r.heapGet(st, vk), r.heapGet(st, lk)
	had := sel(sel(H, m), k)
	newLen := ite(had, sel(L, m), app("Int", "+", sel(L, m), intLit(1)))
	r.heapSet(st, lk, store(L, m, newLen))
	r.heapSet(st, hk, store(H, m, store(sel(H, m), k, tTrue)))
	r.heapSet(st, vk, store(V, m, store(sel(V, m), k, v)))
}

func (r *Run) mapDelete(st *State, mt *types.Map, m, k Term) {
	hk, lk := r.eng.heapKeyMapHas(mt), r.eng.heapKeyMapLen(mt)
	for _, key := range []string{hk, lk} {
		r.noteWrite(key, m.S)
	}
	H, L := r.heapGet(st, hk), r.heapGet(st, lk)
	had := sel(sel(H, m), k)
	newLen := ite(had, app("Int", "-", sel(L, m), intLit(1)), sel(L, m))
	r.heapSet(st, lk, store(L, m, newLen))
	r.heapSet(st, hk, store(H, m, store(sel(H, m), k, tFalse)))
}

func (fr *Frame) execLookup(x *ssa.Lookup, st *State) {
	r := fr.run
	u := r.eng.u
	if isString(x.X.Type()) {
		s := fr.term(x.X)
		u.ufunc("str_at", []string{"Str", "Int"}, "Int")
		fr.set(x, app("Int", "str_at", s, fr.term(x.Index)))
		return
	}
	mt := types.Unalias(x.X.Type()).Underlying().(*types.Map)
	m := fr.term(x.X)
	k := fr.term(x.Index)
	has := and(not(eq(m, intLit(0))), r.mapHas(st, mt, m, k))
	v := ite(has, r.mapVal(st, mt, m, k), u.zeroOf(mt.Elem()))
	v = r.def(x.Name(), v)
	r.knownFacts(st, v, mt.Elem())
	if x.CommaOk {
		fr.vals[x] = Tuple{v, r.def(x.Name()+"ok", has)}
	} else {
		fr.vals[x] = v
	}
}

// range over map: arbitrary order, tracked by a visited set
func (fr *Frame) execRange(x *ssa.Range, st *State) {
	r := fr.run
	if isString(x.X.Type()) {
		unsupported("range over string")
	}
	mt := types.Unalias(x.X.Type()).Underlying().(*types.Map)
	m := fr.term(x.X)
	ks := r.eng.u.sortOf(mt.Key())
	vis := Term{fmt.Sprintf("((as const %s) false)", arraySort(ks, "Bool")), arraySort(ks, "Bool")}
	// the visited set lives in a pseudo-heap cell so that loops havoc it
	key := r.eng.declHeap("iter|"+fr.fn.String()+"|"+x.Name(), "iter_"+mangle(x.Name()), arraySort(ks, "Bool"))
	r.heapSet(st, key, vis)
	fr.mapIters[x] = &mapIter{m: m, mt: mt}
	fr.vals[x] = Term{"0", "Int"}
}

func (fr *Frame) iterKey(x ssa.Value) string {
	return "iter|" + fr.fn.String() + "|" + x.Name()
}

func (fr *Frame) execNext(x *ssa.Next, st *State) {
	r := fr.run
	if x.IsString {
		unsupported("range over string")
	}
	it := fr.mapIters[x.Iter]
	if it == nil {
		unsupported("next on unknown iterator")
	}
	key := fr.iterKey(x.Iter)
	vis := r.heapGet(st, key)
	ks := r.eng.u.sortOf(it.mt.Key())
	k := r.havoc("k", ks)
	ok := r.havoc("ok", "Bool")
	nonnil := not(eq(it.m, intLit(0)))
	has := func(kk Term) Term { return and(nonnil, r.mapHas(st, it.mt, it.m, kk)) }
	// ok => k is an unvisited key of the map; !ok => every key has been visited
	r.assume(st, implies(ok, and(has(k), not(sel(vis, k)))))
	// a map that has a key is not empty
	r.assume(st, implies(ok, app("Bool", ">=", r.mapLen(st, it.mt, it.m), intLit(1))))
	r.assume(st, implies(not(ok), Term{fmt.Sprintf("(forall ((kq %s)) (! (=> %s %s) :pattern (%s)))", ks, has(Term{"kq", ks}).S, sel(vis, Term{"kq", ks}).S, sel(vis, Term{"kq", ks}).S), "Bool"}))
	r.knownFacts(st, k, it.mt.Key())
	v := r.def("v", r.mapVal(st, it.mt, it.m, k))
	r.knownFacts(st, v, it.mt.Elem())
	r.heapSet(st, key, ite(ok, store(vis, k, tTrue), vis))
	fr.vals[x] = Tuple{ok, k, v}
}

// ---------------------------------------------------------------------------
// slices

func (fr *Frame) execSlice(x *ssa.Slice, st *State) {
	r := fr.run
	u := r.eng.u
	var lo, hi Term
	haveLo, haveHi := x.Low != nil, x.High != nil
	if haveLo {
		lo = fr.term(x.Low)
	} else {
		lo = intLit(0)
	}
	if x.Max != nil {
		unsupported("3-index slice")
	}
	switch xt := types.Unalias(x.X.Type()).Underlying().(type) {
	case *types.Slice:
		s := fr.term(x.X)
		if haveHi {
			hi = fr.term(x.High)
		} else {
			hi = app("Int", "sl_len", s)
		}
		fr.safety(st, "index", and(app("Bool", "<=", intLit(0), lo), app("Bool", "<=", lo, hi), app("Bool", "<=", hi, app("Int", "sl_cap", s))), x.Pos(), "slice bounds in range")
		// growing within capacity (s[:n] with n > len) exposes elements beyond len: modelled (same backing array)
		off := app("Int", "+", app("Int", "sl_off", s), lo)
		if lo.S == "0" {
			off = app("Int", "sl_off", s)
		}
		fr.set(x, app("Slice", "mk_slice", app("Int", "sl_arr", s), off, app("Int", "-", hi, lo), app("Int", "-", app("Int", "sl_cap", s), lo)))
	case *types.Basic:
		s := fr.term(x.X)
		if haveHi {
			hi = fr.term(x.High)
		} else {
			hi = app("Int", "str_len", s)
		}
		u.ufunc("str_sub", []string{"Str", "Int", "Int"}, "Str")
		u.axiom("(forall ((s Str) (a Int) (b Int)) (! (=> (and (<= 0 a) (<= a b) (<= b (str_len s))) (= (str_len (str_sub s a b)) (- b a))) :pattern ((str_sub s a b))))")
		u.axiom("(forall ((s Str)) (! (= (str_sub s 0 (str_len s)) s) :pattern ((str_sub s 0 (str_len s)))))")
		fr.safety(st, "index", and(app("Bool", "<=", intLit(0), lo), app("Bool", "<=", lo, hi), app("Bool", "<=", hi, app("Int", "str_len", s))), x.Pos(), "string slice bounds in range")
		fr.set(x, app("Str", "str_sub", s, lo, hi))
	case *types.Pointer:
		// slicing an array: allocate a backing array that holds a copy (only used for locals such as [N]T{...}[:])
		at := xt.Elem().Underlying().(*types.Array)
		var arrv Term
		switch a := fr.val(x.X).(type) {
		case *Loc:
			arrv = r.readLoc(st, a)
		case Term:
			arrv = sel(r.heapGet(st, r.eng.heapKeyObj(xt.Elem())), a)
		}
		if haveHi {
			hi = fr.term(x.High)
		} else {
			hi = intLit(at.Len())
		}
		ref := fr.allocFresh(st, at.Elem(), Term{})
		key := r.eng.heapKeyArr(at.Elem())
		r.heapSet(st, key, store(r.heapGet(st, key), ref, arrv))
		r.noteWrite(key, ref.S) // a write to an array allocated right here (loop frames: fresh-only)
		r.noteAssume("array sliced into a fresh backing store (writes through the slice do not reach the array variable)")
		fr.set(x, app("Slice", "mk_slice", ref, lo, app("Int", "-", hi, lo), app("Int", "-", intLit(at.Len()), lo)))
		r.recordSliceArr(fr.vals[x], ref)
	default:
		unsupported("slice of %s", x.X.Type())
	}
}

func (r *Run) noteAssume(s string) {
	for _, x := range r.assumeNotes {
		if x == s {
			return
		}
	}
	r.assumeNotes = append(r.assumeNotes, s)
}

// sliceAppend: append(s, elems...) always allocates a fresh backing array (assumption: no aliasing through spare capacity)
func (r *Run) sliceAppendOne(st *State, fr *Frame, et types.Type, s Term, v Term) Term {
	key := r.eng.heapKeyArr(et)
	A := r.heapGet(st, key)
	ref := fr.allocFresh(st, et, Term{})
	ln := app("Int", "sl_len", s)
	inner := r.shifted(et, sel(A, app("Int", "sl_arr", s)), app("Int", "sl_off", s))
	r.heapSet(st, key, store(A, ref, store(inner, app("Int", "sl_ix", intLit(0), ln), v)))
	ncap := r.havoc("cap", "Int")
	r.assume(st, app("Bool", ">", ncap, ln))
	return app("Slice", "mk_slice", ref, intLit(0), app("Int", "+", ln, intLit(1)), ncap)
}

// shifted returns the array a' with a'[i] = a[i+off]
func (r *Run) shifted(et types.Type, a Term, off Term) Term {
	if off.S == "0" {
		return a
	}
	u := r.eng.u
	es := u.sortOf(et)
	n := "shift_" + mangle(es)
	as := arraySort("Int", es)
	u.ufunc(n, []string{as, "Int"}, as)
	u.axiom(fmt.Sprintf("(forall ((a %s) (o Int) (i Int)) (! (= (select (%s a o) i) (select a (+ i o))) :pattern ((select (%s a o) i))))", as, n, n))
	u.axiom(fmt.Sprintf("(forall ((a %s)) (! (= (%s a 0) a) :pattern ((%s a 0))))", as, n, n))
	return app(as, n, a, off)
}
