package main

// Running a test file against the real code of /repo without writing into the repository: `go test -overlay`.
// Used by the bounded stand-ins (functions the verifier cannot reach; labelled bounded, never counted as proved) and by
// the replay of counterexamples.

import (
	"bytes"
	"context"
	"encoding/json"
	"fmt"
	"os"
	"os/exec"
	"path/filepath"
	"regexp"
	"sort"
	"strconv"
	"strings"
	"time"
)

type OverlayRun struct {
	OK      bool
	Output  string
	Seconds float64
	Cmd     string
}

// runOverlayTest injects src as <repo>/<pkgDir>/<fileName> (build overlay only) and runs the tests matching runRe.
func runOverlayTest(repo, pkgDir, fileName string, src []byte, runRe string, env []string, timeout time.Duration) OverlayRun {
	t0 := time.Now()
	tmp, err := os.MkdirTemp("", "fvc-ov-")
	if err != nil {
		return OverlayRun{Output: err.Error()}
	}
	defer os.RemoveAll(tmp)
	srcPath := filepath.Join(tmp, fileName)
	if err := os.WriteFile(srcPath, src, 0o644); err != nil {
		return OverlayRun{Output: err.Error()}
	}
	ov := map[string]map[string]string{"Replace": {filepath.Join(repo, pkgDir, fileName): srcPath}}
	ovData, _ := json.Marshal(ov)
	ovPath := filepath.Join(tmp, "overlay.json")
	os.WriteFile(ovPath, ovData, 0o644)
	ctx, cancel := context.WithTimeout(context.Background(), timeout+30*time.Second)
	defer cancel()
	args := []string{"test", "-overlay", ovPath, "-vet=off", "-count=1", "-v", "-timeout", fmt.Sprintf("%ds", int(timeout.Seconds())), "-run", runRe, "./" + filepath.ToSlash(pkgDir)}
	cmd := exec.CommandContext(ctx, "go", args...)
	cmd.Dir = repo
	cmd.Env = append(os.Environ(), "GOFLAGS=-mod=mod", "GOPROXY=off", "GOSUMDB=off", "GOTOOLCHAIN=local")
	cmd.Env = append(cmd.Env, env...)
	var buf bytes.Buffer
	cmd.Stdout = &buf
	cmd.Stderr = &buf
	err = cmd.Run()
	out := buf.String()
	if len(out) > 20000 {
		out = out[:10000] + "\n...\n" + out[len(out)-10000:]
	}
	return OverlayRun{OK: err == nil, Output: out, Seconds: time.Since(t0).Seconds(), Cmd: "go " + strings.Join(args, " ")}
}

// ---------------------------------------------------------------------------
// bounded stand-ins: /verif/bounded/<PROP>/<name>_test.go, first lines:
//   // fvc-bounded: pkg=pkg/utils/matrix run=TestBoundedMatrix quick=3 thorough=4
//   // fvc-what: <one line: which function, which bound, against which reference>

type BoundedResult struct {
	Name      string  `json:"name"`
	Function  string  `json:"function_under_bounded_check"`
	Bound     string  `json:"bound"`
	Cases     int     `json:"cases"`
	Distinct  int     `json:"distinct_nontrivial"`
	Passed    bool    `json:"passed"`
	Seconds   float64 `json:"seconds"`
	Label     string  `json:"label"`
	Cmd       string  `json:"cmd"`
	OutputEnd string  `json:"output_tail,omitempty"`
}

var boundedHdr = regexp.MustCompile(`(?m)^// fvc-bounded:(.*)$`)
var boundedWhat = regexp.MustCompile(`(?m)^// fvc-what:(.*)$`)
var boundedCases = regexp.MustCompile(`(?m)^\s*BOUNDED-CASES (\d+) DISTINCT (\d+)`)

func runBounded(repo, verif, prop, tier string) (results []BoundedResult, failures []string) {
	dir := filepath.Join(verif, "bounded", prop)
	ents, err := os.ReadDir(dir)
	if err != nil {
		return nil, nil
	}
	var names []string
	for _, e := range ents {
		if strings.HasSuffix(e.Name(), "_test.go") {
			names = append(names, e.Name())
		}
	}
	sort.Strings(names)
	for _, n := range names {
		src, err := os.ReadFile(filepath.Join(dir, n))
		if err != nil {
			continue
		}
		m := boundedHdr.FindSubmatch(src)
		if m == nil {
			continue
		}
		kv := map[string]string{}
		for _, f := range strings.Fields(string(m[1])) {
			if i := strings.Index(f, "="); i > 0 {
				kv[f[:i]] = f[i+1:]
			}
		}
		bound := kv[tier]
		if bound == "" {
			bound = kv["quick"]
		}
		what := ""
		if w := boundedWhat.FindSubmatch(src); w != nil {
			what = strings.TrimSpace(string(w[1]))
		}
		to := 10 * time.Minute
		if tier == "thorough" {
			to = 40 * time.Minute
		}
		run := runOverlayTest(repo, kv["pkg"], "zz_fvc_bounded_"+n, src, "^"+kv["run"]+"$", []string{"FVC_BOUND=" + bound}, to)
		br := BoundedResult{Name: strings.TrimSuffix(n, "_test.go"), Function: what, Bound: bound, Passed: run.OK, Seconds: run.Seconds, Cmd: "FVC_BOUND=" + bound + " " + run.Cmd,
			Label: "bounded (not a proof; not counted in obligations/discharged)"}
		if c := boundedCases.FindStringSubmatch(run.Output); c != nil {
			br.Cases, _ = strconv.Atoi(c[1])
			br.Distinct, _ = strconv.Atoi(c[2])
		}
		if !run.OK || br.Cases == 0 {
			br.Passed = false
			tail := run.Output
			if len(tail) > 4000 {
				tail = tail[len(tail)-4000:]
			}
			br.OutputEnd = tail
			failures = append(failures, br.Name)
		}
		results = append(results, br)
	}
	return
}
