package main

// Symbolic executor over go/ssa (NaiveForm): generates verification conditions.

import (
	"fmt"
	"go/constant"
	"go/token"
	"go/types"
	"regexp"
	"sort"
	"strings"

	"golang.org/x/tools/go/ssa"
)

// ---------------------------------------------------------------------------
// Values

type Val interface{}

type Tuple []Val

type Closure struct {
	Fn       *ssa.Function
	Bindings []Val
	id       Term
}

type FuncRef struct{ Fn *ssa.Function }

type rootKind int

const (
	rootLocal rootKind = iota
	rootHeap
	rootElem
	rootGlobal
)

type PathEl struct {
	field int        // field index, or -1 for an array index
	idx   Term       // array index
	contT types.Type // container type (struct or array) this element selects from
}

type Loc struct {
	kind  rootKind
	alloc *ssa.Alloc  // rootLocal
	glob  *ssa.Global // rootGlobal
	T     types.Type  // type of the root object (pointee / element / local's type)
	ref   Term        // rootHeap: pointer; rootElem: slice term
	idx   Term        // rootElem: index (relative to the slice)
	path  []PathEl
	typ   types.Type // type of the addressed location
	nilOK bool
}

func (l *Loc) extend(pe PathEl, typ types.Type) *Loc {
	n := *l
	n.path = append(append([]PathEl{}, l.path...), pe)
	n.typ = typ
	return &n
}

// ---------------------------------------------------------------------------
// State

type State struct {
	pc     Term
	locals map[*ssa.Alloc]Term
	heaps  map[string]Term
}

func (s *State) clone() *State {
	n := &State{pc: s.pc, locals: make(map[*ssa.Alloc]Term, len(s.locals)), heaps: make(map[string]Term, len(s.heaps))}
	for k, v := range s.locals {
		n.locals[k] = v
	}
	for k, v := range s.heaps {
		n.heaps[k] = v
	}
	return n
}

// ---------------------------------------------------------------------------
// Obligations

type Obligation struct {
	Name    string
	Kind    string   // ensures, requires, loop-init, loop-step, safety kinds, frame, lemma, vacuity
	Tags    []string // property ids
	Func    string
	Src     string   // clause source text
	Script  string   // full SMT-LIB query
	More    []string // further queries of the same obligation (one per return path); all must have the expected result
	Expect  string   // "unsat" for proof obligations, "sat" for vacuity/cover
	Pos     string
	Claimed bool // counts toward the property (false: safety sweep only)
	// results
	Result string
	Solver string
	Ms     int64
	Model  string
	Detail string
	// replay
	FailIdx int         // index of the query (return path) that failed
	Replay  *ReplayInfo // inputs (and, for ensures, result terms) of the function under verification
}

// ---------------------------------------------------------------------------
// Run: one verification run of one function (with inlined callees)

type execErr struct {
	msg   string
	ident string // unknown identifier of a contract clause, if that is what failed
}

func (e execErr) Error() string { return e.msg }

func unsupported(f string, a ...interface{}) {
	panic(execErr{msg: fmt.Sprintf(f, a...)})
}

type Run struct {
	// names used by the contract for locals / parameters that the source now calls differently (see rebind.go)
	localAlias                  map[string]string
	loopRemap                   map[*ssa.BasicBlock]*LoopSpec // remap.go: loop header -> the loop clauses attached to it
	eng                         *Engine
	top                         *ssa.Function
	contract                    *FuncContract
	lines                       []scriptLine
	anc                         map[string]map[string]bool // pc name -> pcs that can precede it (relevance of guarded assumptions)
	ctr                         int
	obls                        []*Obligation
	heapVer                     map[string]int
	inlined                     map[string]bool
	externs                     map[string]bool // assumed contracts used
	natives                     map[string]bool
	noops                       map[string]bool
	depth                       int
	stack                       []*ssa.Function
	safetyN                     map[string]int
	declared                    map[string]bool
	assumeNotes                 []string
	inputs                      []inputVar // named inputs for model projection
	callN, qctr, noDef, probing int
	havocN, noAssume, allocN    int
	pureInsts                   map[string]*pureInst
	guards                      map[string]*Term
	topRets                     []retRec
	frameItemsC                 []frameItem
	frameItemsDone              bool
	entryEnv                    *SpecEnv
	entryState                  *State
	writes                      map[string][]string    // probe: heap key -> refs written (names)
	usedContracts               map[*FuncContract]bool // verified (non-extern) callee contracts relied upon in this run
	sliceArr                    map[string]string      // slice term name -> backing array ref name (for slices built from a known allocation)
	closures                    map[string]*Closure
	funcProv                    map[string]string     // function-valued term -> "pkgpath.Type.Field" it was loaded from
	cellOrigin                  map[*ssa.Alloc]string // captured (heap) slice variables: allocation tag of the value last stored
	probeCtr0                   int
	axiomsDone                  map[string]bool
	axiomsUsed                  []string
	tracker                     *heapTracker
	trackState                  *State
}

type inputVar struct {
	Name string
	Term string
	Sort string
	Type string
}

func (r *Run) fresh(prefix string) string {
	r.ctr++
	return fmt.Sprintf("%s_%d", prefix, r.ctr)
}

type scriptLine struct {
	text  string
	guard string // name of the path condition guarding an assumption ("" = unconditional / declaration)
}

func (r *Run) emit(line string) { r.lines = append(r.lines, scriptLine{text: line}) }

// newPC names a path condition and records which earlier path conditions can lead to it.
func (r *Run) newPC(t Term, parents ...Term) Term {
	if t.S == "true" || t.S == "false" || r.noDef > 0 {
		return t
	}
	n := r.fresh("pc")
	r.emit(fmt.Sprintf("(define-fun %s () Bool %s)", n, t.S))
	if r.anc == nil {
		r.anc = map[string]map[string]bool{}
	}
	a := map[string]bool{n: true}
	for _, p := range parents {
		for k := range r.anc[p.S] {
			a[k] = true
		}
	}
	r.anc[n] = a
	return Term{n, "Bool"}
}

func (r *Run) scriptFor(pc Term) string {
	var b strings.Builder
	rel := r.anc[pc.S]
	for _, l := range r.lines {
		if l.guard != "" && l.guard != pc.S && !rel[l.guard] {
			continue
		}
		b.WriteString(l.text)
		b.WriteString("\n")
	}
	return b.String()
}

// def names a term (keeps queries DAG-shaped).
func (r *Run) def(prefix string, t Term) Term {
	if r.noDef > 0 {
		return t
	}
	if !strings.Contains(t.S, " ") {
		return t
	}
	n := r.fresh(prefix)
	r.emit(fmt.Sprintf("(define-fun %s () %s %s)", n, t.Sort, t.S))
	return Term{n, t.Sort}
}

// name always introduces a definition (used where a term must be pattern-safe).
func (r *Run) name(prefix string, t Term) Term {
	if r.noDef > 0 || !strings.Contains(t.S, " ") {
		return t
	}
	n := r.fresh(prefix)
	r.emit(fmt.Sprintf("(define-fun %s () %s %s)", n, t.Sort, t.S))
	return Term{n, t.Sort}
}

// constOf introduces a fresh constant equal to t on the current path.
func (r *Run) constOf(st *State, prefix string, t Term) Term {
	c := r.havoc(prefix, t.Sort)
	r.assume(st, eq(c, t))
	return c
}

func (r *Run) havoc(prefix, sort string) Term {
	r.havocN++
	n := r.fresh(prefix)
	r.emit(fmt.Sprintf("(declare-const %s %s)", n, sort))
	return Term{n, sort}
}

func (r *Run) assume(st *State, fact Term) {
	if fact.S == "true" || r.noAssume > 0 {
		return
	}
	g := st.pc.S
	if g == "true" {
		g = ""
	}
	r.lines = append(r.lines, scriptLine{text: fmt.Sprintf("(assert %s)", implies(st.pc, fact).S), guard: g})
}

func (r *Run) oblige(st *State, kind, name string, tags []string, goal Term, src string, claimed bool, pos token.Pos) {
	r.obligeMulti([]*State{st}, []Term{goal}, kind, name, tags, src, claimed, pos)
}

// obligeMulti records one obligation made of several queries (one per path); all must be unsat.
func (r *Run) obligeMulti(sts []*State, goals []Term, kind, name string, tags []string, src string, claimed bool, pos token.Pos) {
	if r.probing > 0 {
		return
	}
	posS := ""
	if pos.IsValid() {
		p := r.eng.prog.Fset.Position(pos)
		posS = fmt.Sprintf("%s:%d", p.Filename, p.Line)
	}
	g, isKnown := r.guards[name]
	if !isKnown {
		// a guarded known finding on a safety obligation follows the obligation when a refactoring renumbers it or moves
		// the operation into an inlined helper (`F#overflow.1` -> `F#overflow@helper.1`): the guard, evaluated on F's entry
		// state, still delimits exactly the failing inputs, and outside it the obligation must hold as before
		if ck := safetyClassKey(name); ck != "" {
			for k, gk := range r.guards {
				if gk != nil && safetyClassKey(k) == ck {
					g, isKnown = gk, true
					break
				}
			}
		}
	}
	var scripts, kscripts []string
	for i, st := range sts {
		var b strings.Builder
		b.WriteString(r.scriptFor(st.pc))
		fmt.Fprintf(&b, "(assert %s)\n(assert (not %s))\n", st.pc.S, goals[i].S)
		if isKnown {
			// known finding: the failing class G is reported as known; outside G the obligation must still hold
			ks := b.String()
			if g != nil {
				ks += fmt.Sprintf("(assert %s)\n", g.S)
				b.WriteString(fmt.Sprintf("(assert (not %s))\n", g.S))
			}
			kscripts = append(kscripts, ks)
		}
		scripts = append(scripts, b.String())
	}
	if isKnown {
		r.obls = append(r.obls, &Obligation{Name: name + "?known", Kind: "known-finding", Tags: tags, Func: r.top.String(), Src: src, Script: kscripts[0], More: kscripts[1:], Expect: "unsat", Claimed: claimed, Pos: posS})
		if g == nil {
			return
		}
	}
	o := &Obligation{Name: name, Kind: kind, Tags: tags, Func: r.top.String(), Src: src, Script: scripts[0], More: scripts[1:], Expect: "unsat", Claimed: claimed, Pos: posS}
	o.Replay = r.replayInfo()
	r.obls = append(r.obls, o)
}

// satCheck records a vacuity/cover obligation: the conjunction must be satisfiable.
func (r *Run) satCheck(st *State, name string, tags []string, extra Term) {
	if r.probing > 0 {
		return
	}
	var b strings.Builder
	b.WriteString(r.scriptFor(st.pc))
	fmt.Fprintf(&b, "(assert %s)\n(assert %s)\n", st.pc.S, extra.S)
	r.obls = append(r.obls, &Obligation{Name: name, Kind: "vacuity", Tags: tags, Func: r.top.String(), Script: b.String(), Expect: "sat", Claimed: true})
}

// ---------------------------------------------------------------------------
// Heaps

func (r *Run) heapSort(key string) string {
	d := r.eng.heapDecls[key]
	if d == nil {
		panic("unknown heap key " + key)
	}
	return d.sort
}

func (r *Run) heapGet(st *State, key string) Term {
	if t, ok := st.heaps[key]; ok {
		return t
	}
	if r.trackState == st && r.tracker != nil {
		r.tracker.used[key] = true
		d := r.eng.heapDecls[key]
		return Term{"h_" + d.name, d.sort}
	}
	// first use: a fresh symbolic initial heap, the same for every state of this run
	d := r.eng.heapDecls[key]
	n := d.name + "_0"
	if !r.declared[n] {
		r.declared[n] = true
		r.emit(fmt.Sprintf("(declare-const %s %s)", n, d.sort))
		if key != "alloc" {
			if wf := r.heapWFTerm(key, Term{n, d.sort}, Term{"wm_0", "Int"}); wf.S != "true" {
				r.heapGet(st, "alloc")
				r.emit(fmt.Sprintf("(assert %s)", wf.S))
			}
		}
	}
	return Term{n, d.sort}
}

// heapWFTerm: every reference stored in heap H (of the given key) is allocated w.r.t. wm.
func (r *Run) heapWFTerm(key string, H Term, wm Term) Term {
	u := r.eng.u
	d := r.eng.heapDecls[key]
	if d == nil || d.T == nil {
		return tTrue
	}
	switch d.kind {
	case "H":
		ok := u.okTerm(d.T, sel(H, Term{"wx", "Int"}), wm)
		if ok.S == "true" {
			return tTrue
		}
		return Term{fmt.Sprintf("(forall ((wx Int)) (! (=> (<= wx %s) %s) :pattern (%s)))", wm.S, ok.S, sel(H, Term{"wx", "Int"}).S), "Bool"}
	case "A":
		e := sel(sel(H, Term{"wx", "Int"}), Term{"wi", "Int"})
		ok := u.okTerm(d.T, e, wm)
		if ok.S == "true" {
			return tTrue
		}
		return Term{fmt.Sprintf("(forall ((wx Int) (wi Int)) (! (=> (<= wx %s) %s) :pattern (%s)))", wm.S, ok.S, e.S), "Bool"}
	case "MV":
		ks := arrayKeySort(arrayValSort(H.Sort))
		e := sel(sel(H, Term{"wx", "Int"}), Term{"wk", ks})
		ok := u.okTerm(d.T, e, wm)
		if ok.S == "true" {
			return tTrue
		}
		return Term{fmt.Sprintf("(forall ((wx Int) (wk %s)) (! (=> (<= wx %s) %s) :pattern (%s)))", ks, wm.S, ok.S, e.S), "Bool"}
	case "G":
		return u.okTerm(d.T, H, wm)
	}
	return tTrue
}

// assumeHeapWF: after a heap version was introduced by havoc, everything stored in it is allocated.
func (r *Run) assumeHeapWF(st *State, key string) {
	if key == "alloc" {
		return
	}
	wf := r.heapWFTerm(key, r.heapGet(st, key), r.heapGet(st, r.eng.heapKeyAlloc()))
	r.assume(st, wf)
}

func (r *Run) heapSet(st *State, key string, t Term) {
	d := r.eng.heapDecls[key]
	st.heaps[key] = r.def(d.name, t)
}

func (e *Engine) declHeap(key, name, sort string) string {
	if _, ok := e.heapDecls[key]; !ok {
		e.heapDecls[key] = &HeapDecl{key: key, name: name, sort: sort}
	}
	return key
}

func (e *Engine) declHeapT(key, name, sort, kind string, T types.Type) string {
	if _, ok := e.heapDecls[key]; !ok {
		e.heapDecls[key] = &HeapDecl{key: key, name: name, sort: sort, kind: kind, T: T}
	}
	return key
}

func (e *Engine) heapKeyObj(T types.Type) string {
	key := "H|" + typeKey(T)
	return e.declHeapT(key, "H_"+mangle(shortTypeName(T)), arraySort("Int", e.u.sortOf(T)), "H", T)
}
func (e *Engine) heapKeyArr(T types.Type) string {
	key := "A|" + typeKey(T)
	return e.declHeapT(key, "A_"+mangle(shortTypeName(T)), arraySort("Int", arraySort("Int", e.u.sortOf(T))), "A", T)
}
func (e *Engine) heapKeyMapHas(m *types.Map) string {
	key := "MH|" + typeKey(m.Key()) + "|" + typeKey(m.Elem())
	return e.declHeap(key, "MH_"+mangle(shortTypeName(m.Key()))+"_"+mangle(shortTypeName(m.Elem())), arraySort("Int", arraySort(e.u.sortOf(m.Key()), "Bool")))
}
func (e *Engine) heapKeyMapVal(m *types.Map) string {
	key := "MV|" + typeKey(m.Key()) + "|" + typeKey(m.Elem())
	return e.declHeapT(key, "MV_"+mangle(shortTypeName(m.Key()))+"_"+mangle(shortTypeName(m.Elem())), arraySort("Int", arraySort(e.u.sortOf(m.Key()), e.u.sortOf(m.Elem()))), "MV", m.Elem())
}
func (e *Engine) heapKeyMapLen(m *types.Map) string {
	key := "ML|" + typeKey(m.Key()) + "|" + typeKey(m.Elem())
	return e.declHeap(key, "ML_"+mangle(shortTypeName(m.Key()))+"_"+mangle(shortTypeName(m.Elem())), arraySort("Int", "Int"))
}
func (e *Engine) heapKeyGlobal(g *ssa.Global) string {
	key := "G|" + g.String()
	T := g.Type().(*types.Pointer).Elem()
	return e.declHeapT(key, "G_"+mangle(g.Pkg.Pkg.Name()+"_"+g.Name()), e.u.sortOf(T), "G", T)
}
func (e *Engine) heapKeyAlloc() string {
	return e.declHeap("alloc", "wm", "Int")
}

// ---------------------------------------------------------------------------
// Locations

func (r *Run) readRoot(st *State, l *Loc) Term {
	switch l.kind {
	case rootLocal:
		t, ok := st.locals[l.alloc]
		if !ok {
			// cell not initialised on this path (alloc in a block not on every path): unconstrained
			t = r.havoc("uninit", r.eng.u.sortOf(l.T))
			st.locals[l.alloc] = t
		}
		return t
	case rootHeap:
		return sel(r.heapGet(st, r.eng.heapKeyObj(l.T)), l.ref)
	case rootElem:
		A := r.heapGet(st, r.eng.heapKeyArr(l.T))
		return sel(sel(A, app("Int", "sl_arr", l.ref)), r.elemIndex(l.ref, l.idx))
	case rootGlobal:
		return r.heapGet(st, r.eng.heapKeyGlobal(l.glob))
	}
	panic("bad root")
}

func (r *Run) elemIndex(slice, idx Term) Term {
	return app("Int", "sl_ix", app("Int", "sl_off", slice), idx)
}

// noteWrite records (during a loop probe) which object a heap write targets.
func (r *Run) noteWrite(key string, ref string) {
	if r.writes != nil {
		r.writes[key] = append(r.writes[key], ref)
	}
}

func (r *Run) isFreshRef(ref string) bool {
	if !strings.HasPrefix(ref, "new_") || ref == "new_own" {
		return false
	}
	n := 0
	for _, c := range ref[4:] {
		if c < '0' || c > '9' {
			return false
		}
		n = n*10 + int(c-'0')
	}
	return n > r.probeCtr0
}

func (r *Run) isFreshRefSince(ref string, ctr0 int) bool {
	if !strings.HasPrefix(ref, "new_") || ref == "new_own" {
		return false
	}
	n := 0
	for _, c := range ref[4:] {
		if c < '0' || c > '9' {
			return false
		}
		n = n*10 + int(c-'0')
	}
	return n > ctr0
}

// arrRefOf: the backing-array ref of a slice term, when the slice was built from a known allocation.
func (r *Run) arrRefOf(slice Term) string {
	if a, ok := r.sliceArr[slice.S]; ok {
		return a
	}
	return "?"
}

func (r *Run) writeRoot(st *State, l *Loc, v Term) {
	switch l.kind {
	case rootLocal:
		st.locals[l.alloc] = r.def("l_"+mangle(l.alloc.Comment), v)
	case rootHeap:
		key := r.eng.heapKeyObj(l.T)
		r.noteWrite(key, l.ref.S)
		r.heapSet(st, key, store(r.heapGet(st, key), l.ref, v))
	case rootElem:
		key := r.eng.heapKeyArr(l.T)
		r.noteWrite(key, r.arrRefOf(l.ref))
		A := r.heapGet(st, key)
		arr := app("Int", "sl_arr", l.ref)
		inner := sel(A, arr)
		r.heapSet(st, key, store(A, arr, store(inner, r.elemIndex(l.ref, l.idx), v)))
	case rootGlobal:
		r.noteWrite(r.eng.heapKeyGlobal(l.glob), "?")
		r.heapSet(st, r.eng.heapKeyGlobal(l.glob), v)
	}
}

func (r *Run) readLoc(st *State, l *Loc) Term {
	t := r.readRoot(st, l)
	for _, pe := range l.path {
		if pe.field >= 0 {
			t = r.eng.u.fieldSel(pe.contT, pe.field, t)
		} else {
			t = sel(t, pe.idx)
		}
	}
	return t
}

func (r *Run) writeLoc(st *State, l *Loc, v Term) {
	if len(l.path) == 0 {
		r.writeRoot(st, l, v)
		return
	}
	base := r.def("b", r.readRoot(st, l))
	r.writeRoot(st, l, r.updPath(base, l.path, v))
}

func (r *Run) updPath(base Term, path []PathEl, v Term) Term {
	if len(path) == 0 {
		return v
	}
	pe := path[0]
	if pe.field >= 0 {
		inner := r.eng.u.fieldSel(pe.contT, pe.field, base)
		return r.eng.u.fieldUpd(pe.contT, pe.field, base, r.updPath(inner, path[1:], v))
	}
	inner := sel(base, pe.idx)
	return store(base, pe.idx, r.updPath(inner, path[1:], v))
}

// ---------------------------------------------------------------------------
// Frames

type Frame struct {
	run          *Run
	fn           *ssa.Function
	vals         map[ssa.Value]Val
	entry        *State
	edges        map[[2]int]*State // (from,to) -> state at the edge (pc includes the edge condition)
	defers       []deferRec
	rets         []retRec
	contract     *FuncContract
	params       map[string]SV
	loops        map[*ssa.BasicBlock]*loopInfo
	loopOrd      map[*ssa.BasicBlock]int
	loopPre      map[*ssa.BasicBlock]*State
	top          bool
	mapIters     map[ssa.Value]*mapIter
	curCall      *ssa.CallCommon
	curAppendArg ssa.Value
	probeSink    func(*State)
	probeHeader  *ssa.BasicBlock
}

type deferRec struct {
	pc   Term
	call *ssa.CallCommon
	args []Val
	fn   Val
	pos  token.Pos
}

type retRec struct {
	st   *State
	vals []Val
}

type loopInfo struct {
	header     *ssa.BasicBlock
	blocks     map[*ssa.BasicBlock]bool
	ord        int
	modLocals  []*ssa.Alloc
	modKeys    []string
	freshOnly  map[string]bool
	ownedAcc   []*ssa.Alloc
	accOrigin  map[*ssa.Alloc]string
	accOwn     []func(Term) Term
	accGet     []func(*State) (Term, bool)
	accRel     []func(Term) Term
	accRelGet  []func(*State) (Term, bool)
	accRelName []string
	autoFramed map[string]bool
	writesSeen map[string][]string
	probeCtr0  int
	decHead    Term
	nBack      int
}

type mapIter struct {
	m       Term
	mt      *types.Map
	visited Term // (Array K Bool), nil-sort when not a map
	isStr   bool
}

func isBackEdge(from, to *ssa.BasicBlock) bool { return to.Dominates(from) }

func (fr *Frame) computeLoops() {
	fr.loops = map[*ssa.BasicBlock]*loopInfo{}
	fr.loopOrd = map[*ssa.BasicBlock]int{}
	for _, b := range fr.fn.Blocks {
		for _, s := range b.Succs {
			if isBackEdge(b, s) {
				li := fr.loops[s]
				if li == nil {
					li = &loopInfo{header: s, blocks: map[*ssa.BasicBlock]bool{s: true}}
					fr.loops[s] = li
				}
				// natural loop: walk predecessors from b until header
				var stack []*ssa.BasicBlock
				if !li.blocks[b] {
					li.blocks[b] = true
					stack = append(stack, b)
				}
				for len(stack) > 0 {
					x := stack[len(stack)-1]
					stack = stack[:len(stack)-1]
					for _, p := range x.Preds {
						if !li.blocks[p] {
							li.blocks[p] = true
							stack = append(stack, p)
						}
					}
				}
			}
		}
	}
	var hs []*ssa.BasicBlock
	for h := range fr.loops {
		hs = append(hs, h)
	}
	sort.Slice(hs, func(i, j int) bool { return hs[i].Index < hs[j].Index })
	for i, h := range hs {
		fr.loops[h].ord = i + 1
		fr.loopOrd[h] = i + 1
	}
}

// topological order ignoring back edges
func (fr *Frame) blockOrder() []*ssa.BasicBlock {
	seen := map[*ssa.BasicBlock]bool{}
	var post []*ssa.BasicBlock
	var visit func(b *ssa.BasicBlock)
	visit = func(b *ssa.BasicBlock) {
		seen[b] = true
		for _, s := range b.Succs {
			if isBackEdge(b, s) || seen[s] {
				continue
			}
			visit(s)
		}
		post = append(post, b)
	}
	visit(fr.fn.Blocks[0])
	// recover block (defers with recover) is ignored
	for i, j := 0, len(post)-1; i < j; i, j = i+1, j-1 {
		post[i], post[j] = post[j], post[i]
	}
	return post
}

// merge states arriving at a join. pcs are mutually exclusive.
func (r *Run) merge(sts []*State) *State {
	if len(sts) == 1 {
		return sts[0].clone()
	}
	var pcs []Term
	for _, s := range sts {
		pcs = append(pcs, s.pc)
	}
	n := &State{pc: r.newPC(or(pcs...), pcs...), locals: map[*ssa.Alloc]Term{}, heaps: map[string]Term{}}
	// locals present in all
	for a := range sts[0].locals {
		all := true
		for _, s := range sts[1:] {
			if _, ok := s.locals[a]; !ok {
				all = false
				break
			}
		}
		if !all {
			continue
		}
		v := sts[len(sts)-1].locals[a]
		for i := len(sts) - 2; i >= 0; i-- {
			v = ite(sts[i].pc, sts[i].locals[a], v)
		}
		n.locals[a] = r.def("m_"+mangle(a.Comment), v)
	}
	keys := map[string]bool{}
	for _, s := range sts {
		for k := range s.heaps {
			keys[k] = true
		}
	}
	for _, k := range sortedKeys(keys) {
		v := r.heapGet(sts[len(sts)-1], k)
		for i := len(sts) - 2; i >= 0; i-- {
			v = ite(sts[i].pc, r.heapGet(sts[i], k), v)
		}
		n.heaps[k] = r.def(r.eng.heapDecls[k].name, v)
	}
	return n
}

// ---------------------------------------------------------------------------
// Function execution

// execFunction symbolically executes fn from state st with the given argument
// values; returns the merged exit state and the result values (nil state if the
// function never returns normally).
func (r *Run) execFunction(fn *ssa.Function, args []Val, bindings []Val, st *State, top bool, contract *FuncContract) (*State, []Val) {
	if fn.Blocks == nil {
		unsupported("function %s has no body", fn)
	}
	for _, f := range r.stack {
		if f == fn {
			unsupported("recursive call to %s needs a contract", fn)
		}
	}
	if len(r.stack) > 8 {
		unsupported("inlining depth exceeded at %s", fn)
	}
	r.stack = append(r.stack, fn)
	defer func() { r.stack = r.stack[:len(r.stack)-1] }()

	fr := &Frame{run: r, fn: fn, vals: map[ssa.Value]Val{}, edges: map[[2]int]*State{}, contract: contract, top: top,
		loopPre: map[*ssa.BasicBlock]*State{}, mapIters: map[ssa.Value]*mapIter{}}
	for i, p := range fn.Params {
		fr.vals[p] = args[i]
	}
	for i, fv := range fn.FreeVars {
		fr.vals[fv] = bindings[i]
	}
	fr.entry = st.clone()
	fr.computeLoops()
	order := fr.blockOrder()
	for _, b := range order {
		var incoming []*State
		if b.Index == 0 {
			incoming = []*State{st}
		} else {
			for _, p := range b.Preds {
				if isBackEdge(p, b) {
					continue
				}
				if es, ok := fr.edges[[2]int{p.Index, b.Index}]; ok {
					incoming = append(incoming, es)
				}
			}
		}
		if len(incoming) == 0 {
			continue
		}
		cur := r.merge(incoming)
		if li, ok := fr.loops[b]; ok {
			cur = fr.enterLoop(li, cur)
		}
		fr.execBlock(b, cur)
	}
	if top {
		r.topRets = fr.rets
	}
	if len(fr.rets) == 0 {
		return nil, nil
	}
	// merge returns
	var sts []*State
	for _, rr := range fr.rets {
		sts = append(sts, rr.st)
	}
	out := r.merge(sts)
	nres := len(fr.rets[0].vals)
	res := make([]Val, nres)
	for k := 0; k < nres; k++ {
		v := fr.rets[len(fr.rets)-1].vals[k]
		for i := len(fr.rets) - 2; i >= 0; i-- {
			v = r.iteVal(fr.rets[i].st.pc, fr.rets[i].vals[k], v)
		}
		if t, ok := v.(Term); ok {
			v = r.def("ret", t)
		}
		res[k] = v
	}
	return out, res
}

func (r *Run) iteVal(c Term, a, b Val) Val {
	ta, ok1 := a.(Term)
	tb, ok2 := b.(Term)
	if ok1 && ok2 {
		return ite(c, ta, tb)
	}
	if fmt.Sprint(a) == fmt.Sprint(b) {
		return a
	}
	unsupported("cannot merge non-term values (%T, %T)", a, b)
	return nil
}

func (fr *Frame) execBlock(b *ssa.BasicBlock, st *State) {
	r := fr.run
	for _, ins := range b.Instrs {
		switch x := ins.(type) {
		case *ssa.If:
			c := fr.term(x.Cond)
			c = r.def("c", c)
			t := st.clone()
			t.pc = r.newPC(and(st.pc, c), st.pc)
			f := st.clone()
			f.pc = r.newPC(and(st.pc, not(c)), st.pc)
			fr.addEdge(b, b.Succs[0], t)
			fr.addEdge(b, b.Succs[1], f)
			return
		case *ssa.Jump:
			fr.addEdge(b, b.Succs[0], st)
			return
		case *ssa.Return:
			var vs []Val
			for _, rv := range x.Results {
				vs = append(vs, fr.val(rv))
			}
			fr.rets = append(fr.rets, retRec{st, vs})
			return
		case *ssa.Panic:
			if fr.run.claims("panic") {
				r.oblige(st, "safety", fr.oname("panic", x.Pos()), fr.safetyTags(), tFalse, "explicit panic unreachable", true, x.Pos())
			}
			return
		default:
			fr.execInstr(ins, st)
		}
	}
}

func (fr *Frame) addEdge(from, to *ssa.BasicBlock, st *State) {
	if isBackEdge(from, to) {
		fr.checkLoopStep(fr.loops[to], st)
		return
	}
	key := [2]int{from.Index, to.Index}
	if prev, ok := fr.edges[key]; ok {
		// both branches of an If go to the same block
		fr.edges[key] = fr.run.merge([]*State{prev, st})
		return
	}
	fr.edges[key] = st
}

// ---------------------------------------------------------------------------
// value lookup

func (fr *Frame) val(v ssa.Value) Val {
	if x, ok := fr.vals[v]; ok {
		return x
	}
	r := fr.run
	u := r.eng.u
	switch c := v.(type) {
	case *ssa.Const:
		return r.constTerm(c)
	case *ssa.Global:
		T := c.Type().(*types.Pointer).Elem()
		return &Loc{kind: rootGlobal, glob: c, T: T, typ: T}
	case *ssa.Function:
		return FuncRef{c}
	case *ssa.Builtin:
		return c
	}
	_ = u
	unsupported("value %s (%T) used before definition in %s", v.Name(), v, fr.fn)
	return nil
}

func (fr *Frame) term(v ssa.Value) Term {
	x := fr.val(v)
	switch t := x.(type) {
	case Term:
		return t
	case *Loc:
		return fr.run.locAsTerm(t)
	case FuncRef:
		return fr.run.funcRefTerm(t.Fn)
	case *Closure:
		return fr.run.closureTerm(t)
	}
	unsupported("value %s of kind %T is not a term (%s)", v.Name(), x, fr.fn)
	return Term{}
}

// closureTerm: an opaque identity for a closure value; the closure itself stays known to the executor so that a
// later dynamic call through the same value (e.g. after passing it as an argument) can be resolved.
func (r *Run) closureTerm(c *Closure) Term {
	if c.id.S != "" {
		return c.id
	}
	c.id = r.havoc("clo", "Int")
	r.emit(fmt.Sprintf("(assert (> %s 0))", c.id.S))
	if r.closures == nil {
		r.closures = map[string]*Closure{}
	}
	r.closures[c.id.S] = c
	return c.id
}

func (r *Run) funcRefTerm(fn *ssa.Function) Term {
	n := "fn_" + mangle(fn.String())
	r.eng.u.ufunc(n, nil, "Int")
	return Term{n, "Int"}
}

// locAsTerm converts an address to a pointer term: only whole heap objects have one.
func (r *Run) locAsTerm(l *Loc) Term {
	if l.kind == rootHeap && len(l.path) == 0 {
		return l.ref
	}
	// interior pointers of heap objects: an injective uninterpreted encoding of (object, field path).
	// Sound as an identity (equality, ghost-state key); loads/stores through such a term are not modelled
	// (callees that are inlined receive the location itself, not this term).
	if l.kind == rootHeap {
		t := l.ref
		ok := true
		for _, pe := range l.path {
			if pe.field < 0 {
				ok = false
				break
			}
			fn := fmt.Sprintf("fld_%s_%d", mangle(shortTypeName(pe.contT)), pe.field)
			r.eng.u.ufunc(fn, []string{"Int"}, "Int")
			r.eng.u.ufunc("inv_"+fn, []string{"Int"}, "Int")
			r.eng.u.axiom(fmt.Sprintf("(forall ((x Int)) (! (and (= (inv_%s (%s x)) x) (< (%s x) 0)) :pattern ((%s x))))", fn, fn, fn, fn))
			t = app("Int", fn, t)
		}
		if ok {
			r.noteAssume("interior pointers are opaque identities (no load/store through an escaped &x.f is modelled)")
			return t
		}
	}
	unsupported("interior pointer escapes (address of %s)", shortTypeName(l.typ))
	return Term{}
}

func (r *Run) constTerm(c *ssa.Const) Term {
	u := r.eng.u
	T := c.Type()
	if c.Value == nil {
		return u.zeroOf(T)
	}
	switch c.Value.Kind() {
	case constant.Bool:
		if constant.BoolVal(c.Value) {
			return tTrue
		}
		return tFalse
	case constant.Int:
		if b, ok := T.Underlying().(*types.Basic); ok && b.Info()&types.IsFloat != 0 {
			return Term{c.Value.ExactString() + ".0", "Real"}
		}
		return bigLit(c.Value.ExactString())
	case constant.String:
		return u.strLit(constant.StringVal(c.Value))
	case constant.Float:
		f, _ := constant.Float64Val(c.Value)
		if b, ok := T.Underlying().(*types.Basic); ok && b.Info()&types.IsInteger != 0 {
			return bigLit(fmt.Sprintf("%d", int64(f)))
		}
		s := fmt.Sprintf("%f", f)
		if f < 0 {
			s = fmt.Sprintf("(- %f)", -f)
		}
		return Term{s, "Real"}
	}
	unsupported("constant %s", c)
	return Term{}
}

// ---------------------------------------------------------------------------
// safety helpers

func (r *Run) claims(kind string) bool {
	if r.contract == nil {
		return false
	}
	return r.contract.Safety[kind] || r.contract.Safety["all"]
}

func (fr *Frame) safetyTags() []string {
	if fr.run.contract != nil {
		return fr.run.contract.Tags
	}
	return nil
}

func (fr *Frame) oname(kind string, pos token.Pos) string {
	r := fr.run
	k := kind
	if !fr.top {
		k = kind + "@" + fr.fn.Name()
	}
	r.safetyN[k]++
	return fmt.Sprintf("%s#%s.%d", r.funcLabel(), k, r.safetyN[k])
}

// replayInfo: the inputs of the function under verification, for model projection (see replay.go)
func (r *Run) replayInfo() *ReplayInfo {
	if r.top == nil || len(r.top.Params) != len(r.inputs) {
		return nil
	}
	ri := &ReplayInfo{Fn: r.top}
	for i, p := range r.top.Params {
		ri.Params = append(ri.Params, replayVar{Name: p.Name(), Term: r.inputs[i].Term, T: p.Type()})
	}
	return ri
}

func (r *Run) funcLabel() string {
	return r.top.Pkg.Pkg.Name() + "." + relName(r.top)
}

func relName(fn *ssa.Function) string {
	if fn.Parent() != nil {
		return relName(fn.Parent()) + strings.TrimPrefix(fn.Name(), fn.Parent().Name())
	}
	if recv := fn.Signature.Recv(); recv != nil {
		t := recv.Type()
		if p, ok := t.(*types.Pointer); ok {
			t = p.Elem()
		}
		if n, ok := types.Unalias(t).(*types.Named); ok {
			return n.Obj().Name() + "." + fn.Name()
		}
	}
	return fn.Name()
}

func (fr *Frame) safety(st *State, kind string, goal Term, pos token.Pos, what string) {
	r := fr.run
	if goal.S == "true" {
		return
	}
	claimed := r.claims(kind)
	if !claimed && !r.eng.sweep {
		return
	}
	r.oblige(st, "safety:"+kind, fr.oname(kind, pos), fr.safetyTags(), goal, what, claimed, pos)
}

func intRange(b *types.Basic) (lo, hi string, ok bool) {
	switch b.Kind() {
	case types.Int, types.Int64:
		return "-9223372036854775808", "9223372036854775807", true
	case types.Int32:
		return "-2147483648", "2147483647", true
	case types.Int16:
		return "-32768", "32767", true
	case types.Int8:
		return "-128", "127", true
	case types.Uint, types.Uint64, types.Uintptr:
		return "0", "18446744073709551615", true
	case types.Uint32:
		return "0", "4294967295", true
	case types.Uint16:
		return "0", "65535", true
	case types.Uint8:
		return "0", "255", true
	}
	return "", "", false
}

func inRange(t Term, T types.Type) Term {
	b, ok := T.Underlying().(*types.Basic)
	if !ok {
		return tTrue
	}
	lo, hi, ok := intRange(b)
	if !ok {
		return tTrue
	}
	return and(app("Bool", "<=", bigLit(lo), t), app("Bool", "<=", t, bigLit(hi)))
}

// typeFacts assumes the facts that hold of every well-typed value of type T
// (integer ranges, slice shape, refs allocated).
func (r *Run) typeFacts(st *State, t Term, T types.Type) {
	T = types.Unalias(T)
	switch tt := T.Underlying().(type) {
	case *types.Basic:
		if tt.Info()&types.IsInteger != 0 {
			r.assume(st, inRange(t, T))
		}
	case *types.Slice:
		r.assume(st, app("Bool", "wf_slice", t))
	case *types.Pointer, *types.Map:
		r.assume(st, app("Bool", ">=", t, intLit(0)))
	}
}

var safetyClassRe = regexp.MustCompile(`^(.*#(?:nil|index|overflow|alloc|div0|assert-type|nilmap-write))(?:@[^.]*)?\.\d+$`)

// safetyClassKey: "pkg.F#overflow.3" and "pkg.F#overflow@helper.1" -> "pkg.F#overflow"; "" for other obligations.
func safetyClassKey(name string) string {
	if m := safetyClassRe.FindStringSubmatch(name); m != nil {
		return m[1]
	}
	return ""
}
