package main

// Frame obligations: everything allocated before the call that the function's
// `modifies` clause does not cover is unchanged when the function returns.

import (
	"fmt"
	"go/types"
	"strings"

	"golang.org/x/tools/go/ssa"
)

type frameItem struct {
	kind string // "obj" (whole object), "path", "heap" (all objects of T), "elems", "arrays", "mapof", "maps", "ident"
	T    types.Type
	ref  Term
	loc  *Loc
	key  string // for ident: heap key
	mt   *types.Map
}

func (r *Run) frameItems(env *SpecEnv, fc *FuncContract) []frameItem {
	var items []frameItem
	for i, m := range fc.Modifies {
		func() {
			defer func() {
				if x := recover(); x != nil {
					if se, ok := x.(specErr); ok {
						panic(execErr{msg: fmt.Sprintf("modifies %q: %s", fc.ModSrc[i], se.msg)})
					}
					panic(x)
				}
			}()
			switch x := m.(type) {
			case EUnary:
				if x.Op == "*" {
					v := r.eval(env, x.X)
					if v.isAddr {
						items = append(items, frameItem{kind: "path", loc: v.loc, T: v.loc.T})
						return
					}
					items = append(items, frameItem{kind: "obj", T: deref(v.T), ref: v.t})
					return
				}
			case ECall:
				if id, ok := x.Fun.(EIdent); ok {
					switch id.Name {
					case "heap":
						items = append(items, frameItem{kind: "heap", T: r.specTypeArg(env, x.Args[0])})
						return
					case "elems":
						v := r.eval(env, x.Args[0])
						et := types.Unalias(v.T).Underlying().(*types.Slice).Elem()
						items = append(items, frameItem{kind: "elems", T: et, ref: app("Int", "sl_arr", v.t)})
						return
					case "arrays":
						items = append(items, frameItem{kind: "arrays", T: r.specTypeArg(env, x.Args[0])})
						return
					case "mapof":
						v := r.eval(env, x.Args[0])
						items = append(items, frameItem{kind: "mapof", mt: types.Unalias(v.T).Underlying().(*types.Map), ref: v.t})
						return
					case "chanof":
						v := r.eval(env, x.Args[0])
						bk, hk, tk := r.eng.chanKeys(chanElem(v.T))
						for _, key := range []string{bk, hk, tk} {
							items = append(items, frameItem{kind: "ident", key: key})
						}
						return
					case "maps":
						K := r.specTypeArg(env, x.Args[0])
						V := r.specTypeArg(env, x.Args[1])
						items = append(items, frameItem{kind: "maps", mt: types.NewMap(K, V)})
						return
					}
				}
			case EIdent:
				// ghost or global: find its key by evaluating it and matching the heap key name
				if env.pkg != nil {
					if g, ok := r.eng.ghosts[env.pkg.Path()+"::"+x.Name]; ok {
						items = append(items, frameItem{kind: "ident", key: "ghost|" + g.PkgPath + "::" + g.Name})
						return
					}
				}
				if g, ok := r.eng.ghosts["::"+x.Name]; ok {
					items = append(items, frameItem{kind: "ident", key: "ghost|::" + g.Name})
					return
				}
				if env.pkg != nil {
					if o := env.pkg.Scope().Lookup(x.Name); o != nil {
						if sp := r.eng.prog.Package(o.Pkg()); sp != nil {
							if g, ok := sp.Members[o.Name()].(*ssa.Global); ok {
								items = append(items, frameItem{kind: "ident", key: r.eng.heapKeyGlobal(g)})
								return
							}
						}
					}
				}
			case ESel:
				if g := r.qualifiedGhost(env, x); g != nil {
					items = append(items, frameItem{kind: "ident", key: "ghost|" + g.PkgPath + "::" + g.Name})
					return
				}
				loc := r.evalLoc(env, x)
				items = append(items, frameItem{kind: "path", loc: loc, T: loc.T})
				return
			}
			specFail("unsupported modifies item")
		}()
	}
	return items
}

// frameGoal: the frame condition for heap key k between the entry state and st, for the skolem/bound variable x.
// ok=false when the key is entirely covered by the modifies clause (nothing to prove).
func (r *Run) frameGoal(items []frameItem, entry, st *State, k string, x Term) (Term, bool) {
	e0 := r.heapGet(entry, k)
	e1 := r.heapGet(st, k)
	wm0 := r.heapGet(entry, r.eng.heapKeyAlloc())
	pre := and(app("Bool", "<=", x, wm0), not(eq(x, intLit(0))))
	switch {
	case strings.HasPrefix(k, "H|"):
		// exp is rebuilt item by item; each step is let-bound so that the term stays linear in the number of items
		var binds []string
		bind := func(t Term) Term {
			n := fmt.Sprintf("fe%d_%d", len(binds), r.qctr)
			binds = append(binds, fmt.Sprintf("(%s %s)", n, t.S))
			return Term{n, t.Sort}
		}
		r.qctr++
		cur := bind(sel(e1, x))
		exp := bind(sel(e0, x))
		for _, it := range items {
			switch it.kind {
			case "heap":
				if "H|"+typeKey(it.T) == k {
					return tTrue, false
				}
			case "obj":
				if "H|"+typeKey(it.T) == k {
					exp = bind(ite(eq(x, it.ref), cur, exp))
				}
			case "path":
				if it.loc.kind == rootHeap && "H|"+typeKey(it.loc.T) == k {
					np := r.updPath(exp, it.loc.path, r.readPathOf(cur, it.loc.path))
					exp = bind(ite(eq(x, it.loc.ref), np, exp))
				}
			}
		}
		body := implies(pre, eq(cur, exp)).S
		for i := len(binds) - 1; i >= 0; i-- {
			body = "(let (" + binds[i] + ") " + body + ")"
		}
		return Term{body, "Bool"}, true
	case strings.HasPrefix(k, "A|") && !strings.HasPrefix(k, "A|CB"):
		exp := sel(e0, x)
		cur := sel(e1, x)
		for _, it := range items {
			switch it.kind {
			case "arrays":
				if "A|"+typeKey(it.T) == k {
					return tTrue, false
				}
			case "elems":
				if "A|"+typeKey(it.T) == k {
					exp = ite(eq(x, it.ref), cur, exp)
				}
			case "path":
				if it.loc.kind == rootElem && "A|"+typeKey(it.loc.T) == k {
					exp = ite(eq(x, app("Int", "sl_arr", it.loc.ref)), cur, exp)
				}
			}
		}
		return implies(pre, eq(cur, exp)), true
	case strings.HasPrefix(k, "MH|"), strings.HasPrefix(k, "MV|"), strings.HasPrefix(k, "ML|"):
		exp := sel(e0, x)
		cur := sel(e1, x)
		rest := k[3:]
		for _, it := range items {
			if it.mt == nil || typeKey(it.mt.Key())+"|"+typeKey(it.mt.Elem()) != rest {
				continue
			}
			if it.kind == "maps" {
				return tTrue, false
			} else if it.kind == "mapof" {
				exp = ite(eq(x, it.ref), cur, exp)
			}
		}
		return implies(pre, eq(cur, exp)), true
	}
	// G| and ghost|
	for _, it := range items {
		if it.kind == "ident" && it.key == k {
			return tTrue, false
		}
	}
	return eq(e1, e0), true
}

func frameKeySkipped(k string) bool {
	return k == "alloc" || strings.HasPrefix(k, "iter|")
}

func (r *Run) checkFrame(penv *SpecEnv, entry, out *State) {
	fc := r.contract
	if fc == nil || r.probing > 0 {
		return
	}
	items := r.topFrameItems(penv, entry)
	paths := r.topRets
	var finals []*State
	if len(paths) > 1 && len(paths) <= 16 {
		for _, rr := range paths {
			finals = append(finals, rr.st)
		}
	} else {
		finals = []*State{out}
	}
	changed := map[string]bool{}
	for _, st := range finals {
		for k, t := range st.heaps {
			if r.heapGet(entry, k).S != t.S {
				changed[k] = true
			}
		}
	}
	for _, k := range sortedKeys(changed) {
		if frameKeySkipped(k) {
			continue
		}
		d := r.eng.heapDecls[k]
		name := fmt.Sprintf("%s#frame:%s", r.funcLabel(), d.name)
		var sts []*State
		var goals []Term
		x := r.havoc("fx", "Int")
		for _, st := range finals {
			if r.heapGet(entry, k).S == r.heapGet(st, k).S {
				continue
			}
			g, ok := r.frameGoal(items, entry, st, k, x)
			if !ok {
				continue
			}
			sts = append(sts, st)
			goals = append(goals, g)
		}
		if len(sts) == 0 {
			continue
		}
		r.obligeMulti(sts, goals, "frame", name, fc.Tags, "nothing outside the modifies clause changes: "+d.name, true, r.top.Pos())
	}
}

// topFrameItems evaluates the modifies clause of the function under verification in its entry state (cached).
func (r *Run) topFrameItems(env *SpecEnv, entry *State) []frameItem {
	if r.frameItemsDone {
		return r.frameItemsC
	}
	eenv := env.inState(entry)
	eenv.old = entry
	eenv.frame = nil
	r.frameItemsC = r.frameItems(eenv, r.contract)
	r.frameItemsDone = true
	return r.frameItemsC
}

// readPathOf selects a path inside a struct/array value.
func (r *Run) readPathOf(base Term, path []PathEl) Term {
	t := base
	for _, pe := range path {
		if pe.field >= 0 {
			t = r.eng.u.fieldSel(pe.contT, pe.field, t)
		} else {
			t = sel(t, pe.idx)
		}
	}
	return t
}
