package main

// checkFrame: frame obligations of the function under verification (filled in below).
func (r *Run) checkFrame(env *SpecEnv, entry, out *State) {
}
