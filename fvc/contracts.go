package main

// Contract files: parsing of //@ comment blocks (in /repo/**/zz_contracts_verif.go)
// and of library spec files (/verif/fvc/lib/*.spec, same syntax without the //@ prefix).

import (
	"fmt"
	"os"
	"regexp"
	"strconv"
	"strings"
)

type Clause struct {
	Tags  []string
	Label string
	E     Expr
	Src   string
	File  string
	Line  int
}

type LoopSpec struct {
	Invariants []*Clause
	Decreases  *Clause
}

type FuncContract struct {
	Key         string // in-repo: "Name" / "Recv.Name" / "Outer$1"; extern: full ssa name e.g. "time.Now", "(*pkg.T).M"; interface method: "iface pkgpath.I.M"
	PkgPath     string // package the contract file belongs to ("" for lib)
	Extern      bool
	Requires    []*Clause
	Assumes     []*Clause // stated assumptions on the function's inputs that call sites are NOT asked to prove (listed in the evidence)
	Ensures     []*Clause
	Modifies    []Expr
	ModSrc      []string
	Loops       map[int]*LoopSpec
	Safety      map[string]bool // claimed safety obligation kinds
	Tags        []string        // properties for safety obligations / frame
	Replay      string
	Inline      bool              // "inline": body inlined at call sites even though loop invariants are given
	Params      []string          // optional explicit parameter names for externs (positional)
	Locals      map[string]string // name -> type of the locals mentioned by loop invariants, as pinned by `locals`
	LocalsOrder []string          // the same names, in declaration order
	File        string
	Line        int
	NoVerify    bool     // extern: body not verified
	Fresh       []string // results declared fresh (newly allocated)
	Devirt      string   // interface method: calls are resolved to this concrete type's method (pkg.Type), with an obligation that the dynamic type is that type
}

type PureFunc struct {
	Name      string
	PkgPath   string
	Params    []QVar
	Ret       TypeExpr
	Body      Expr // nil => uninterpreted
	Src       string
	Recursive bool
	File      string
	Line      int
}

type Lemma struct {
	Name    string
	Tags    []string
	PkgPath string
	E       Expr
	Src     string
	File    string
	Line    int
}

type GhostVar struct {
	Name    string
	PkgPath string
	T       TypeExpr
}

type Axiom struct {
	Name    string
	PkgPath string
	E       Expr
	Src     string
}

type ContractFile struct {
	Path    string
	PkgPath string
	Funcs   []*FuncContract
	Pures   []*PureFunc
	Lemmas  []*Lemma
	Ghosts  []*GhostVar
	Axioms  []*Axiom
	Imports map[string]string
}

var keywordRe = regexp.MustCompile(`^(func|extern|requires|ensures|assumes|modifies|loop|pure|lemma|ghost|replay|inline|axiom|safety|tags|params|locals|fresh|devirtualize|import)\b`)
var tagRe = regexp.MustCompile(`^\[([A-Za-z0-9, ]+)\]\s*`)
var labelRe = regexp.MustCompile(`^([A-Za-z][A-Za-z0-9_\-\.]*):\s+`)

type rawItem struct {
	kw   string
	text string
	line int
}

func parseContractFile(path, pkgPath string, stripPrefix bool) (*ContractFile, error) {
	data, err := os.ReadFile(path)
	if err != nil {
		return nil, err
	}
	var items []rawItem
	for i, ln := range strings.Split(string(data), "\n") {
		t := strings.TrimSpace(ln)
		if stripPrefix {
			if !strings.HasPrefix(t, "//@") {
				continue
			}
			t = strings.TrimSpace(t[3:])
		} else {
			if strings.HasPrefix(t, "#") {
				continue
			}
		}
		if t == "" || strings.HasPrefix(t, "//") {
			continue
		}
		if m := keywordRe.FindString(t); m != "" {
			items = append(items, rawItem{m, strings.TrimSpace(t[len(m):]), i + 1})
		} else {
			if len(items) == 0 {
				return nil, fmt.Errorf("%s:%d: continuation line without a clause", path, i+1)
			}
			items[len(items)-1].text += " " + t
		}
	}
	cf := &ContractFile{Path: path, PkgPath: pkgPath}
	var cur *FuncContract
	mkClause := func(it rawItem) (*Clause, error) {
		txt := it.text
		c := &Clause{File: path, Line: it.line}
		if m := tagRe.FindStringSubmatch(txt); m != nil {
			for _, tg := range strings.Split(m[1], ",") {
				c.Tags = append(c.Tags, strings.TrimSpace(tg))
			}
			txt = txt[len(m[0]):]
		}
		if m := labelRe.FindStringSubmatch(txt); m != nil {
			c.Label = m[1]
			txt = txt[len(m[0]):]
		}
		c.Src = txt
		e, err := parseExpr(txt)
		if err != nil {
			return nil, fmt.Errorf("%s:%d: %v", path, it.line, err)
		}
		c.E = e
		return c, nil
	}
	for _, it := range items {
		switch it.kw {
		case "func", "extern":
			fc := &FuncContract{PkgPath: pkgPath, Loops: map[int]*LoopSpec{}, Safety: map[string]bool{}, File: path, Line: it.line}
			txt := it.text
			if it.kw == "extern" {
				fc.Extern = true
				fc.NoVerify = true
				txt = strings.TrimSpace(strings.TrimPrefix(txt, "func"))
			}
			fc.Key = strings.TrimSpace(txt)
			cf.Funcs = append(cf.Funcs, fc)
			cur = fc
		case "requires", "ensures", "assumes":
			if cur == nil {
				return nil, fmt.Errorf("%s:%d: clause outside func", path, it.line)
			}
			c, err := mkClause(it)
			if err != nil {
				return nil, err
			}
			if it.kw == "assumes" {
				if c.Label == "" {
					c.Label = fmt.Sprintf("assume%d", len(cur.Assumes)+1)
				}
				cur.Assumes = append(cur.Assumes, c)
			} else if it.kw == "requires" {
				if c.Label == "" {
					c.Label = fmt.Sprintf("pre%d", len(cur.Requires)+1)
				}
				cur.Requires = append(cur.Requires, c)
			} else {
				if c.Label == "" {
					c.Label = fmt.Sprintf("post%d", len(cur.Ensures)+1)
				}
				cur.Ensures = append(cur.Ensures, c)
			}
		case "modifies":
			if cur == nil {
				return nil, fmt.Errorf("%s:%d: clause outside func", path, it.line)
			}
			for _, part := range splitTopLevel(it.text, ',') {
				part = strings.TrimSpace(part)
				if part == "" {
					continue
				}
				e, err := parseExpr(part)
				if err != nil {
					return nil, fmt.Errorf("%s:%d: %v", path, it.line, err)
				}
				cur.Modifies = append(cur.Modifies, e)
				cur.ModSrc = append(cur.ModSrc, part)
			}
		case "loop":
			if cur == nil {
				return nil, fmt.Errorf("%s:%d: clause outside func", path, it.line)
			}
			fs := strings.Fields(it.text)
			if len(fs) < 3 {
				return nil, fmt.Errorf("%s:%d: bad loop clause", path, it.line)
			}
			n, err := strconv.Atoi(fs[0])
			if err != nil {
				return nil, fmt.Errorf("%s:%d: bad loop ordinal", path, it.line)
			}
			rest := strings.TrimSpace(strings.TrimPrefix(strings.TrimSpace(it.text), fs[0]))
			kind := fs[1]
			rest = strings.TrimSpace(strings.TrimPrefix(rest, kind))
			ls := cur.Loops[n]
			if ls == nil {
				ls = &LoopSpec{}
				cur.Loops[n] = ls
			}
			c, err := mkClause(rawItem{it.kw, rest, it.line})
			if err != nil {
				return nil, err
			}
			switch kind {
			case "invariant":
				if c.Label == "" {
					c.Label = fmt.Sprintf("inv%d", len(ls.Invariants)+1)
				}
				ls.Invariants = append(ls.Invariants, c)
			case "decreases":
				ls.Decreases = c
			default:
				return nil, fmt.Errorf("%s:%d: unknown loop clause %q", path, it.line, kind)
			}
		case "safety":
			for _, k := range strings.Fields(strings.ReplaceAll(it.text, ",", " ")) {
				switch k {
				case "nil", "index", "overflow", "alloc", "div0", "assert-type", "nilmap-write", "all":
					cur.Safety[k] = true
				default:
					return nil, fmt.Errorf("%s:%d: unknown safety kind %q", path, it.line, k)
				}
			}
		case "tags":
			for _, k := range strings.Fields(strings.NewReplacer(",", " ", "[", " ", "]", " ").Replace(it.text)) {
				cur.Tags = append(cur.Tags, k)
			}
		case "params":
			cur.Params = strings.Fields(strings.ReplaceAll(it.text, ",", " "))
		case "locals":
			// types of the locals the loop invariants mention, pinned when the contract was written (rebind.go)
			if cur.Locals == nil {
				cur.Locals = map[string]string{}
			}
			for _, part := range strings.Split(it.text, ";") {
				if i := strings.Index(part, ":"); i > 0 {
					cur.Locals[strings.TrimSpace(part[:i])] = strings.TrimSpace(part[i+1:])
					cur.LocalsOrder = append(cur.LocalsOrder, strings.TrimSpace(part[:i]))
				}
			}
		case "fresh":
			cur.Fresh = append(cur.Fresh, strings.Fields(strings.ReplaceAll(it.text, ",", " "))...)
		case "import":
			fs := strings.Fields(it.text)
			if len(fs) != 2 {
				return nil, fmt.Errorf("%s:%d: import needs an alias and a quoted path", path, it.line)
			}
			if cf.Imports == nil {
				cf.Imports = map[string]string{}
			}
			cf.Imports[fs[0]] = strings.Trim(fs[1], "\"")
		case "devirtualize":
			cur.Devirt = strings.TrimSpace(it.text)
		case "replay":
			cur.Replay = strings.TrimSpace(it.text)
		case "inline":
			cur.Inline = true
		case "pure":
			pf, err := parsePure(it.text)
			if err != nil {
				return nil, fmt.Errorf("%s:%d: %v", path, it.line, err)
			}
			pf.PkgPath = pkgPath
			pf.File, pf.Line = path, it.line
			cf.Pures = append(cf.Pures, pf)
		case "lemma":
			c, err := mkClause(it)
			if err != nil {
				return nil, err
			}
			if c.Label == "" {
				return nil, fmt.Errorf("%s:%d: lemma needs a name", path, it.line)
			}
			cf.Lemmas = append(cf.Lemmas, &Lemma{Name: c.Label, Tags: c.Tags, PkgPath: pkgPath, E: c.E, Src: c.Src, File: path, Line: it.line})
		case "axiom":
			c, err := mkClause(it)
			if err != nil {
				return nil, err
			}
			cf.Axioms = append(cf.Axioms, &Axiom{Name: c.Label, PkgPath: pkgPath, E: c.E, Src: c.Src})
		case "ghost":
			fs := strings.Fields(it.text)
			if len(fs) < 3 || fs[0] != "var" {
				return nil, fmt.Errorf("%s:%d: bad ghost declaration", path, it.line)
			}
			ps := &parser{src: it.text}
			toks, err := lex(strings.Join(fs[2:], " "))
			if err != nil {
				return nil, err
			}
			ps.toks = toks
			var te TypeExpr
			func() {
				defer func() {
					if r := recover(); r != nil {
						err = fmt.Errorf("%v", r)
					}
				}()
				te = ps.typeExpr()
			}()
			if err != nil {
				return nil, fmt.Errorf("%s:%d: %v", path, it.line, err)
			}
			cf.Ghosts = append(cf.Ghosts, &GhostVar{Name: fs[1], PkgPath: pkgPath, T: te})
		}
	}
	return cf, nil
}

func splitTopLevel(s string, sep rune) []string {
	var out []string
	depth := 0
	last := 0
	for i, c := range s {
		switch c {
		case '(', '[':
			depth++
		case ')', ']':
			depth--
		default:
			if c == sep && depth == 0 {
				out = append(out, s[last:i])
				last = i + 1
			}
		}
	}
	out = append(out, s[last:])
	return out
}

// pure name(a T, b U) R = expr     |   pure name(a T) R      (uninterpreted)
func parsePure(txt string) (pf *PureFunc, err error) {
	defer func() {
		if r := recover(); r != nil {
			if pe, ok := r.(parseErr); ok {
				err = fmt.Errorf("%s (in %q)", string(pe), txt)
				return
			}
			panic(r)
		}
	}()
	toks, err := lex(txt)
	if err != nil {
		return nil, err
	}
	ps := &parser{toks: toks, src: txt}
	n := ps.next()
	if n.kind != "id" {
		ps.fail("expected pure function name")
	}
	pf = &PureFunc{Name: n.s, Src: txt}
	if ps.isOp(".") { // receiver-qualified twin of a Go method: Type.Method
		ps.next()
		m := ps.next()
		pf.Name = n.s + "." + m.s
	}
	ps.expectOp("(")
	for !ps.isOp(")") {
		v := ps.next()
		ty := ps.typeExpr()
		pf.Params = append(pf.Params, QVar{v.s, ty})
		if ps.isOp(",") {
			ps.next()
		}
	}
	ps.expectOp(")")
	pf.Ret = ps.typeExpr()
	if ps.isOp("=") {
		ps.next()
		pf.Body = ps.expr(0)
		if ps.peek().kind != "eof" {
			ps.fail("unexpected %q", ps.peek().s)
		}
		pf.Recursive = mentionsCall(pf.Body, pf.Name)
	}
	return pf, nil
}

func mentionsCall(e Expr, name string) bool {
	found := false
	walkExpr(e, func(x Expr) {
		if c, ok := x.(ECall); ok {
			if id, ok := c.Fun.(EIdent); ok && id.Name == name {
				found = true
			}
		}
	})
	return found
}

func walkExpr(e Expr, f func(Expr)) {
	if e == nil {
		return
	}
	f(e)
	switch x := e.(type) {
	case EUnary:
		walkExpr(x.X, f)
	case EBinary:
		walkExpr(x.X, f)
		walkExpr(x.Y, f)
	case ECond:
		walkExpr(x.C, f)
		walkExpr(x.A, f)
		walkExpr(x.B, f)
	case ECall:
		walkExpr(x.Fun, f)
		for _, a := range x.Args {
			walkExpr(a, f)
		}
	case ESel:
		walkExpr(x.X, f)
	case EIndex:
		walkExpr(x.X, f)
		walkExpr(x.I, f)
	case ESlice:
		walkExpr(x.X, f)
		walkExpr(x.Lo, f)
		walkExpr(x.Hi, f)
	case EQuant:
		walkExpr(x.Body, f)
		for _, p := range x.Patterns {
			for _, e := range p {
				walkExpr(e, f)
			}
		}
	case EOld:
		walkExpr(x.X, f)
	case ELet:
		walkExpr(x.Val, f)
		walkExpr(x.Body, f)
	}
}
