package main

import "golang.org/x/tools/go/ssa"

// channels are modelled only as far as the cron controller needs (filled in later)
func (fr *Frame) execSelect(x *ssa.Select, st *State) { unsupported("select statement") }
func (fr *Frame) execSend(x *ssa.Send, st *State)     { unsupported("channel send") }
func (fr *Frame) execRecv(x *ssa.UnOp, st *State)     { unsupported("channel receive") }
