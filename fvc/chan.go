package main

// Buffered channels as ghost FIFOs: per element type, chBuf[ch][i] is the i-th value ever sent, chHead[ch] the number
// of values received so far, chTail[ch] the number sent. Only non-blocking select with a single receive case plus
// default, plain sends and plain receives are modelled. ASSUMED: a send never blocks (the buffer is never full) and
// no other goroutine touches the channel during the call.

import (
	"go/types"

	"golang.org/x/tools/go/ssa"
)

func (e *Engine) chanKeys(et types.Type) (buf, head, tail string) {
	k := typeKey(et)
	n := mangle(shortTypeName(et))
	buf = e.declHeapT("CB|"+k, "CB_"+n, arraySort("Int", arraySort("Int", e.u.sortOf(et))), "A", et)
	head = e.declHeap("CH|"+k, "CH_"+n, arraySort("Int", "Int"))
	tail = e.declHeap("CT|"+k, "CT_"+n, arraySort("Int", "Int"))
	return
}

func chanElem(T types.Type) types.Type {
	return types.Unalias(T).Underlying().(*types.Chan).Elem()
}

func (fr *Frame) execSelect(x *ssa.Select, st *State) {
	r := fr.run
	if x.Blocking || len(x.States) != 1 || x.States[0].Dir != types.RecvOnly {
		unsupported("select statement (only `select { case v := <-ch: ... default: }` is modelled)")
	}
	ch := fr.term(x.States[0].Chan)
	et := chanElem(x.States[0].Chan.Type())
	bk, hk, tk := r.eng.chanKeys(et)
	B, H, T := r.heapGet(st, bk), r.heapGet(st, hk), r.heapGet(st, tk)
	head, tail := sel(H, ch), sel(T, ch)
	nonempty := r.def("chne", app("Bool", "<", head, tail))
	v := r.def("chv", ite(nonempty, sel(sel(B, ch), head), r.eng.u.zeroOf(et)))
	r.knownFacts(st, v, et)
	r.heapSet(st, hk, ite(nonempty, store(H, ch, app("Int", "+", head, intLit(1))), H))
	r.noteWrite(hk, ch.S)
	r.noteAssume("channels are ghost FIFOs: sends never block, no concurrent access during a call")
	fr.vals[x] = Tuple{r.def("chidx", ite(nonempty, intLit(0), intLit(-1))), nonempty, v}
}

func (fr *Frame) execSend(x *ssa.Send, st *State) {
	r := fr.run
	ch := fr.term(x.Chan)
	et := chanElem(x.Chan.Type())
	bk, _, tk := r.eng.chanKeys(et)
	B, T := r.heapGet(st, bk), r.heapGet(st, tk)
	tail := sel(T, ch)
	r.heapSet(st, bk, store(B, ch, store(sel(B, ch), tail, fr.term(x.X))))
	r.heapSet(st, tk, store(T, ch, app("Int", "+", tail, intLit(1))))
	r.noteWrite(bk, ch.S)
	r.noteWrite(tk, ch.S)
	r.noteAssume("channels are ghost FIFOs: sends never block, no concurrent access during a call")
}

func (fr *Frame) execRecv(x *ssa.UnOp, st *State) { unsupported("blocking channel receive") }
