package main

import (
	"fmt"
	"go/token"
	"go/types"
	"strings"

	"golang.org/x/tools/go/ssa"
)

// call handles an ssa.CallCommon; returns the result value (Term, Tuple or nil).
func (fr *Frame) call(st *State, c *ssa.CallCommon, site ssa.Value, pos token.Pos) Val {
	var args []Val
	for _, a := range c.Args {
		args = append(args, fr.val(a))
	}
	fv := fr.val(c.Value)
	return fr.callResolved(st, c, fv, args, site, pos)
}

func (fr *Frame) callResolved(st *State, c *ssa.CallCommon, fv Val, args []Val, site ssa.Value, pos token.Pos) Val {
	r := fr.run
	fr.curCall = c
	if c.IsInvoke() {
		return fr.invoke(st, c, fv, args, pos)
	}
	switch f := fv.(type) {
	case *ssa.Builtin:
		return fr.builtin(st, f, c, args, pos)
	case FuncRef:
		return fr.callFunc(st, f.Fn, args, nil, pos)
	case *Closure:
		return fr.callFunc(st, f.Fn, args, f.Bindings, pos)
	case Term:
		if clo, ok := r.closures[f.S]; ok {
			return fr.callFunc(st, clo.Fn, args, clo.Bindings, pos)
		}
		// dynamic call through a function value loaded from a struct field: resolved by an (assumed) `dyn T.Field` contract
		if prov, ok := r.funcProv[f.S]; ok {
			key := "dyn " + prov
			if fc := r.eng.contracts[key]; fc != nil {
				r.externs[key] = true
				return fr.callContract(st, c.Signature(), nil, fc, args, pos, key)
			}
			unsupported("dynamic call through %s: no `extern func dyn %s` contract", c.Value.Name(), prov)
		}
		// an unknown function value (typically a function-typed parameter of the function under verification):
		// assumed pure, modelled as an uninterpreted application
		if sig := c.Signature(); sig.Results().Len() == 1 {
			var ts []Term
			okArgs := true
			for _, a := range args {
				t, ok := a.(Term)
				if !ok {
					okArgs = false
					break
				}
				ts = append(ts, t)
			}
			if okArgs {
				res := r.def("fnres", r.fnApp(f, ts, sig))
				r.knownFacts(st, res, sig.Results().At(0).Type())
				return res
			}
		}
		unsupported("dynamic call through function value %s (%s; known: %v)", c.Value.Name(), f.S, r.funcProv)
	}
	_ = r
	unsupported("call of %T", fv)
	return nil
}

func resultVal(vals []Val) Val {
	switch len(vals) {
	case 0:
		return nil
	case 1:
		return vals[0]
	}
	return Tuple(vals)
}

func (fr *Frame) callFunc(st *State, fn *ssa.Function, args []Val, bindings []Val, pos token.Pos) Val {
	r := fr.run
	name := fn.String()
	// 0. generic instantiations: use origin name for lookup too
	if fn.Origin() != nil {
		name = fn.Origin().String()
	}
	// 1. no-op functions (logging, tracing, metrics); an explicit contract wins over the prefix-based no-op list
	if r.eng.isNoop(name) && r.eng.contractFor(fn) == nil {
		r.noops[name] = true
		return fr.unconstrainedResults(st, fn.Signature)
	}
	// 2. native models
	if nat, ok := natives[name]; ok {
		r.natives[name] = true
		return nat(fr, st, args, pos)
	}
	// 3. contracts
	if fc := r.eng.contractFor(fn); fc != nil && !(fc.Inline && fn.Blocks != nil) {
		if fc.Extern {
			r.externs[fc.Key] = true
		} else {
			if r.usedContracts == nil {
				r.usedContracts = map[*FuncContract]bool{}
			}
			r.usedContracts[fc] = true
		}
		return fr.callContract(st, fn.Signature, fn, fc, args, pos, name)
	}
	// 4. inline in-repo bodies and synthetic wrappers
	if fn.Blocks != nil && (r.eng.inRepo(fn) || fn.Synthetic != "") {
		r.inlined[name] = true
		// deep-copy state handling: execFunction works on a clone and returns the exit state
		out, res := r.execFunction(fn, args, bindings, st, false, r.eng.contractFor(fn))
		if out == nil {
			// callee never returns on this path: path ends
			st.pc = tFalse
			return fr.unconstrainedResults(st, fn.Signature)
		}
		*st = *out
		return resultVal(res)
	}
	// 5. a library function from a package of pure value functions (strings, strconv, unicode, math, path) that takes and
	// returns only plain values: modelled as a deterministic, effect-free function of its arguments
	if v, ok := fr.pureValueCall(st, fn, name, args); ok {
		return v
	}
	unsupported("call to %s: no contract, no model, body not available", name)
	return nil
}

var pureValuePkgs = []string{"strings.", "strconv.", "unicode.", "unicode/utf8.", "math.", "math/bits.", "path.", "path/filepath.", "(time.Duration).", "(time.Month).", "(time.Weekday)."}

// plainValue: a type whose values carry no references (so a function over them can neither observe nor change the heap).
func plainValue(T types.Type, depth int) bool {
	if depth > 4 {
		return false
	}
	switch t := types.Unalias(T).Underlying().(type) {
	case *types.Basic:
		return t.Kind() != types.UnsafePointer
	case *types.Struct:
		for i := 0; i < t.NumFields(); i++ {
			if !plainValue(t.Field(i).Type(), depth+1) {
				return false
			}
		}
		return true
	case *types.Array:
		return plainValue(t.Elem(), depth+1)
	}
	return false
}

func (fr *Frame) pureValueCall(st *State, fn *ssa.Function, name string, args []Val) (Val, bool) {
	r := fr.run
	okPkg := false
	for _, p := range pureValuePkgs {
		if strings.HasPrefix(name, p) {
			okPkg = true
		}
	}
	if !okPkg || r.eng.inRepo(fn) {
		return nil, false
	}
	sig := fn.Signature
	var ts []Term
	var sorts []string
	for i, a := range args {
		var T types.Type
		if sig.Recv() != nil {
			if i == 0 {
				T = sig.Recv().Type()
			} else {
				T = sig.Params().At(i - 1).Type()
			}
		} else {
			T = sig.Params().At(i).Type()
		}
		t, isTerm := a.(Term)
		if !isTerm || !plainValue(T, 0) {
			return nil, false
		}
		ts = append(ts, t)
		sorts = append(sorts, t.Sort)
	}
	if sig.Variadic() || sig.Results().Len() == 0 {
		return nil, false
	}
	var vs []Val
	for i := 0; i < sig.Results().Len(); i++ {
		T := sig.Results().At(i).Type()
		isErr := types.Identical(T, types.Universe.Lookup("error").Type())
		if !plainValue(T, 0) && !isErr {
			return nil, false
		}
		ret := r.eng.u.sortOf(T)
		uf := fmt.Sprintf("ext_%s_%d", mangle(name), i)
		r.eng.u.ufunc(uf, sorts, ret)
		var res Term
		if len(ts) == 0 {
			res = r.def("ext", Term{uf, ret})
		} else {
			res = r.def("ext", app(ret, uf, ts...))
		}
		r.knownFacts(st, res, T)
		vs = append(vs, res)
	}
	r.noteAssume("library function " + name + " (no contract written for it) is taken to be a deterministic, effect-free function of its plain-value arguments")
	return resultVal(vs), true
}

func (fr *Frame) unconstrainedResults(st *State, sig *types.Signature) Val {
	r := fr.run
	var vs []Val
	for i := 0; i < sig.Results().Len(); i++ {
		T := sig.Results().At(i).Type()
		t := r.havoc("res", r.eng.u.sortOf(T))
		r.knownFacts(st, t, T)
		vs = append(vs, t)
	}
	return resultVal(vs)
}

// argTerm converts an argument value into a spec value.
func (fr *Frame) argSV(v Val, T types.Type) SV {
	switch x := v.(type) {
	case Term:
		return SV{t: x, T: T}
	case *Loc:
		if x.kind == rootHeap && len(x.path) == 0 {
			return SV{t: x.ref, T: T}
		}
		sv := SV{loc: x, T: T, isAddr: true}
		func() {
			defer func() { recover() }()
			sv.t = fr.run.locAsTerm(x)
		}()
		return sv
	case FuncRef:
		return SV{t: fr.run.funcRefTerm(x.Fn), T: T, fn: x.Fn}
	case *Closure:
		return SV{t: fr.run.closureTerm(x), T: T, fn: x.Fn, clo: x}
	}
	unsupported("argument of kind %T", v)
	return SV{}
}

func paramNames(sig *types.Signature, fc *FuncContract) []string {
	var names []string
	if sig.Recv() != nil {
		n := sig.Recv().Name()
		if n == "" || n == "_" {
			n = "recv"
		}
		names = append(names, n)
	}
	for i := 0; i < sig.Params().Len(); i++ {
		n := sig.Params().At(i).Name()
		if n == "" || n == "_" {
			n = fmt.Sprintf("arg%d", i)
		}
		names = append(names, n)
	}
	if fc != nil && len(fc.Params) > 0 {
		for i := range names {
			if i < len(fc.Params) {
				names[i] = fc.Params[i]
			}
		}
	}
	return names
}

func paramTypes(sig *types.Signature) []types.Type {
	var ts []types.Type
	if sig.Recv() != nil {
		ts = append(ts, sig.Recv().Type())
	}
	for i := 0; i < sig.Params().Len(); i++ {
		ts = append(ts, sig.Params().At(i).Type())
	}
	return ts
}

func resultNames(sig *types.Signature) []string {
	var names []string
	n := sig.Results().Len()
	for i := 0; i < n; i++ {
		nm := sig.Results().At(i).Name()
		if nm == "" || nm == "_" {
			nm = fmt.Sprintf("result%d", i)
		}
		names = append(names, nm)
	}
	return names
}

// callContract: assert pre, havoc modifies, assume post.
func (fr *Frame) callContract(st *State, sig *types.Signature, fn *ssa.Function, fc *FuncContract, args []Val, pos token.Pos, name string) Val {
	r := fr.run
	pkg := r.eng.specPkgFor(fc, fn)
	env := &SpecEnv{run: r, pkg: pkg, cur: st, old: st, vars: map[string]SV{}, fc: fc}
	names := paramNames(sig, fc)
	ptypes := paramTypes(sig)
	if len(args) != len(names) {
		unsupported("call to %s: %d args for %d params (variadic?)", name, len(args), len(names))
	}
	for i, n := range names {
		sv := fr.argSV(args[i], ptypes[i])
		env.vars[n] = sv
		env.vars[fmt.Sprintf("arg%d", i)] = sv
	}
	// definitional contracts (`ensures result == E` only) are applied as definitions: no havoc, no assumption
	if len(fc.Fresh) == 0 {
		var svs []SV
		for i := range names {
			svs = append(svs, env.vars[names[i]])
		}
		if sv, ok := r.applyDefinitional(env, fc, sig, svs); ok && sv.t.S != "nil" {
			want := r.eng.u.sortOf(sig.Results().At(0).Type())
			if sv.t.Sort == want {
				res := r.def("d_"+mangle(shortFuncName(name)), sv.t)
				r.knownFacts(st, res, sig.Results().At(0).Type())
				return res
			}
		} else if ok {
			return r.eng.u.zeroOf(sig.Results().At(0).Type())
		}
	}
	r.callN++
	cs := r.callN
	for _, cl := range fc.Requires {
		g := r.evalBool(env, cl)
		r.oblige(st, "requires", fmt.Sprintf("%s#requires:%s.%s@%d", r.funcLabel(), shortFuncName(name), cl.Label, cs), mergeTags(cl.Tags, fr.safetyTags()), g, cl.Src, true, pos)
	}
	pre := st.clone()
	env.old = pre
	// allocation may happen in any callee
	wmKey := r.eng.heapKeyAlloc()
	wm0 := r.heapGet(st, wmKey)
	wm1 := r.havoc("wm", "Int")
	r.assume(st, app("Bool", ">=", wm1, wm0))
	st.heaps[wmKey] = wm1
	for i, m := range fc.Modifies {
		r.havocModifies(env, pre, st, m, fc.ModSrc[i])
	}
	// results
	var res []Val
	rn := resultNames(sig)
	for i := 0; i < sig.Results().Len(); i++ {
		T := sig.Results().At(i).Type()
		t := r.havoc("r_"+mangle(shortFuncName(name)), r.eng.u.sortOf(T))
		r.knownFacts(st, t, T)
		// an object returned by the callee stores only references that exist when the callee returns
		if pt, ok := types.Unalias(T).Underlying().(*types.Pointer); ok {
			if _, ok := types.Unalias(pt.Elem()).Underlying().(*types.Struct); ok && !isTimeTime(pt.Elem()) {
				okT := r.eng.u.okTerm(pt.Elem(), sel(r.heapGet(st, r.eng.heapKeyObj(pt.Elem())), t), wm1)
				if okT.S != "true" {
					r.assume(st, implies(not(eq(t, intLit(0))), okT))
				}
			}
		}
		res = append(res, t)
		env.vars[rn[i]] = SV{t: t, T: T}
		env.vars[fmt.Sprintf("result%d", i)] = SV{t: t, T: T}
		if sig.Results().Len() == 1 {
			env.vars["result"] = SV{t: t, T: T}
		}
	}
	for _, f := range fc.Fresh {
		if sv, ok := env.vars[f]; ok {
			ref := sv.t
			if ref.Sort == "Slice" {
				ref = app("Int", "sl_arr", sv.t)
			}
			if ref.Sort == "Int" {
				r.assume(st, or(eq(ref, intLit(0)), app("Bool", ">", ref, wm0)))
			}
		}
	}
	env.cur = st
	for _, cl := range fc.Ensures {
		r.assume(st, r.evalBool(env, cl))
	}
	return resultVal(res)
}

func shortFuncName(full string) string {
	// "(*github.com/a/b/pkg.T).M" -> "T.M"; "github.com/a/b/pkg.F" -> "pkg.F"
	s := full
	if strings.HasPrefix(s, "(") {
		i := strings.LastIndex(s, ").")
		recv := strings.TrimPrefix(s[1:i], "*")
		if j := strings.LastIndex(recv, "/"); j >= 0 {
			recv = recv[j+1:]
		}
		if j := strings.Index(recv, "."); j >= 0 {
			recv = recv[j+1:]
		}
		return recv + "." + s[i+2:]
	}
	if j := strings.LastIndex(s, "/"); j >= 0 {
		s = s[j+1:]
	}
	return s
}

func mergeTags(a, b []string) []string {
	seen := map[string]bool{}
	var out []string
	for _, x := range append(append([]string{}, a...), b...) {
		if !seen[x] {
			seen[x] = true
			out = append(out, x)
		}
	}
	return out
}

// invoke: interface method call
func (fr *Frame) invoke(st *State, c *ssa.CallCommon, recv Val, args []Val, pos token.Pos) Val {
	r := fr.run
	it := types.Unalias(c.Value.Type())
	key := "iface " + typeKey(it) + "." + c.Method.Name()
	if r.eng.isNoop(key) {
		r.noops[key] = true
		return fr.unconstrainedResults(st, c.Signature())
	}
	if nat, ok := natives[key]; ok {
		r.natives[key] = true
		return nat(fr, st, append([]Val{recv}, args...), pos)
	}
	if _, hasContract := r.eng.contracts[key]; !hasContract {
		if v, ok := fr.objMetaInvoke(st, c, recv, args, pos); ok {
			return v
		}
	}
	if isClockMethod(c.Method) {
		r.natives["clock: "+key] = true
		return r.clockRead(st)
	}
	if fc := r.eng.contracts[key]; fc != nil && fc.Devirt != "" {
		// devirtualised interface call: the dynamic type must be the production implementation, whose own
		// (verified) contract is then used
		pkgName, tName := fc.Devirt, ""
		if i := strings.LastIndex(fc.Devirt, "."); i >= 0 {
			pkgName, tName = fc.Devirt[:i], fc.Devirt[i+1:]
		}
		tp := r.eng.importedPkg(r.eng.typesPkgs[fc.PkgPath], pkgName)
		if tp == nil {
			unsupported("devirtualize %s: unknown package", fc.Devirt)
		}
		tn, ok := tp.Scope().Lookup(tName).(*types.TypeName)
		if !ok {
			unsupported("devirtualize %s: unknown type", fc.Devirt)
		}
		PT := types.NewPointer(tn.Type())
		fn := r.eng.findFunc(tp.Path(), tName+"."+c.Method.Name())
		if fn == nil {
			unsupported("devirtualize %s: no method %s", fc.Devirt, c.Method.Name())
		}
		rv := fr.toTerm(recv)
		r.callN++
		r.oblige(st, "requires", fmt.Sprintf("%s#devirtualize:%s.%s@%d", r.funcLabel(), tName, c.Method.Name(), r.callN), fr.safetyTags(),
			eq(app("Int", "if_tag", rv), r.eng.u.typeID(PT)), "interface value holds the production implementation *"+fc.Devirt, true, pos)
		var recvArg Val = app("Int", "if_val", rv)
		if _, isPtr := fn.Signature.Recv().Type().(*types.Pointer); !isPtr {
			unsupported("devirtualize %s: value receiver", fc.Devirt)
		}
		r.externs["devirtualized: "+key+" -> "+fn.String()] = true
		return fr.callFunc(st, fn, append([]Val{recvArg}, args...), nil, pos)
	}
	if fc := r.eng.contracts[key]; fc != nil {
		r.externs[key] = true
		sig := c.Signature()
		// build a signature with the interface value as receiver
		rv := types.NewVar(token.NoPos, nil, "recv", it)
		sig2 := types.NewSignatureType(rv, nil, nil, sig.Params(), sig.Results(), sig.Variadic())
		return fr.callContract(st, sig2, nil, fc, append([]Val{recv}, args...), pos, key)
	}
	unsupported("interface call %s: no contract", key)
	return nil
}

// ---------------------------------------------------------------------------
// builtins

func (fr *Frame) builtin(st *State, b *ssa.Builtin, c *ssa.CallCommon, args []Val, pos token.Pos) Val {
	r := fr.run
	u := r.eng.u
	switch b.Name() {
	case "len":
		T := types.Unalias(c.Args[0].Type()).Underlying()
		t := fr.toTerm(args[0])
		switch tt := T.(type) {
		case *types.Slice:
			return app("Int", "sl_len", t)
		case *types.Basic:
			return app("Int", "str_len", t)
		case *types.Map:
			return ite(eq(t, intLit(0)), intLit(0), r.mapLen(st, tt, t))
		case *types.Array:
			return intLit(tt.Len())
		case *types.Pointer:
			return intLit(tt.Elem().Underlying().(*types.Array).Len())
		}
		unsupported("len of %s", T)
	case "cap":
		t := fr.toTerm(args[0])
		return app("Int", "sl_cap", t)
	case "append":
		st0 := types.Unalias(c.Args[0].Type()).Underlying().(*types.Slice)
		s := fr.toTerm(args[0])
		if isString(c.Args[1].Type()) {
			unsupported("append(bytes, string...)")
		}
		t := fr.toTerm(args[1]) // a slice (variadic is packed by ssa)
		fr.curAppendArg = c.Args[1]
		return fr.appendSlices(st, st0.Elem(), s, t)
	case "delete":
		mt := types.Unalias(c.Args[0].Type()).Underlying().(*types.Map)
		m := fr.toTerm(args[0])
		k := fr.toTerm(args[1])
		// delete on nil map is a no-op
		s1 := st.clone()
		r.mapDelete(s1, mt, m, k)
		for _, key := range []string{r.eng.heapKeyMapHas(mt), r.eng.heapKeyMapLen(mt)} {
			r.heapSet(st, key, ite(eq(m, intLit(0)), r.heapGet(st, key), r.heapGet(s1, key)))
		}
		return nil
	case "copy":
		unsupported("copy builtin")
	case "min", "max":
		a, bb := fr.toTerm(args[0]), fr.toTerm(args[1])
		op := "<="
		if b.Name() == "max" {
			op = ">="
		}
		return ite(app("Bool", op, a, bb), a, bb)
	case "ssa:deferstack":
		return Term{"0", "Int"}
	case "ssa:wrapnilchk":
		return args[0]
	case "print", "println":
		return nil
	case "recover":
		return Term{"iface_nil", "Iface"}
	}
	_ = u
	unsupported("builtin %s", b.Name())
	return nil
}

func (fr *Frame) toTerm(v Val) Term {
	switch t := v.(type) {
	case Term:
		return t
	case *Loc:
		return fr.run.locAsTerm(t)
	}
	unsupported("expected term, got %T", v)
	return Term{}
}

// appendSlices models append(s, t...): when the result fits the capacity the elements are written in place
// (visible through every slice sharing the backing array), otherwise into a fresh backing array.
func (fr *Frame) appendSlices(st *State, et types.Type, s, t Term) Term {
	r := fr.run
	key := r.eng.heapKeyArr(et)
	A := r.heapGet(st, key)
	es := r.eng.u.sortOf(et)
	as := arraySort("Int", es)
	origS := s
	// pattern-safe names (patterns must not contain ite); define-fun would be expanded, so use constants
	s = r.constOf(st, "aps", s)
	t = r.constOf(st, "apt", t)
	ls, lt := app("Int", "sl_len", s), app("Int", "sl_len", t)
	nl := app("Int", "+", ls, lt)
	S := r.constOf(st, "apS", sel(A, app("Int", "sl_arr", s)))
	T := r.constOf(st, "apT", sel(A, app("Int", "sl_arr", t)))
	offS, offT := app("Int", "sl_off", s), app("Int", "sl_off", t)
	// --- fresh case: R[i] = S[off_s+i] (i < len s), R[len s + j] = T[off_t+j] (j < len t)
	ref := fr.allocFresh(st, et, Term{})
	R := r.havoc("app", as)
	r.assume(st, Term{fmt.Sprintf("(forall ((i_ Int)) (! (=> (and (<= 0 i_) (< i_ %s)) (= (select %s (sl_ix 0 i_)) (select %s (sl_ix %s i_)))) :pattern ((select %s (sl_ix 0 i_)))))", ls.S, R.S, S.S, offS.S, R.S), "Bool"})
	r.assume(st, Term{fmt.Sprintf("(forall ((i_ Int)) (! (=> (and (<= 0 i_) (< i_ %s)) (= (select %s (sl_ix 0 (+ %s i_))) (select %s (sl_ix %s i_)))) :pattern ((select %s (sl_ix %s i_)))))", lt.S, R.S, ls.S, T.S, offT.S, T.S, offT.S), "Bool"})
	r.assume(st, implies(eq(lt, intLit(1)), eq(sel(R, app("Int", "sl_ix", intLit(0), ls)), sel(T, app("Int", "sl_ix", offT, intLit(0))))))
	ncap := r.havoc("cap", "Int")
	r.assume(st, app("Bool", ">=", ncap, nl))
	r.assume(st, app("Bool", "<=", ncap, Term{"max_alloc", "Int"}))
	// --- in-place case: P = S with P[off_s+len s+j] = T[off_t+j]
	var P Term
	if n, ok := staticSliceLen(fr.curAppendArg); ok && n == 1 {
		P = store(S, app("Int", "sl_ix", offS, ls), sel(T, app("Int", "sl_ix", offT, intLit(0))))
	} else if ok && n == 0 {
		P = S
	} else {
		P = r.havoc("apip", as)
		r.assume(st, Term{fmt.Sprintf("(forall ((i_ Int)) (! (=> (and (<= 0 i_) (< i_ %s)) (= (select %s (sl_ix %s (+ %s i_))) (select %s (sl_ix %s i_)))) :pattern ((select %s (sl_ix %s i_)))))", lt.S, P.S, offS.S, ls.S, T.S, offT.S, T.S, offT.S), "Bool"})
		r.assume(st, Term{fmt.Sprintf("(forall ((i_ Int)) (! (=> (or (< i_ (+ %s %s)) (>= i_ (+ %s %s))) (= (select %s i_) (select %s i_))) :pattern ((select %s i_))))", offS.S, ls.S, app("Int", "+", offS, ls).S, lt.S, P.S, S.S, P.S), "Bool"})
	}
	inplace := r.name("inplace", or(eq(lt, intLit(0)), app("Bool", "<=", nl, app("Int", "sl_cap", s))))
	r.noteWrite(key, r.arrRefOf(origS))
	r.heapSet(st, key, ite(inplace, store(A, app("Int", "sl_arr", s), P), store(A, ref, R)))
	res := r.constOf(st, "appended", ite(inplace,
		app("Slice", "mk_slice", app("Int", "sl_arr", s), offS, nl, app("Int", "sl_cap", s)),
		app("Slice", "mk_slice", ref, intLit(0), nl, ncap)))
	// bridge (valid in both cases, stated with pattern-safe constants): the old elements are the first elements of the result
	NA := r.constOf(st, "apN", sel(r.heapGet(st, key), app("Int", "sl_arr", res)))
	r.assume(st, Term{fmt.Sprintf("(forall ((i_ Int)) (! (=> (and (<= 0 i_) (< i_ %s)) (= (select %s (sl_ix (sl_off %s) i_)) (select %s (sl_ix %s i_)))) :pattern ((select %s (sl_ix %s i_))) :pattern ((select %s (sl_ix (sl_off %s) i_)))))",
		ls.S, NA.S, res.S, S.S, offS.S, S.S, offS.S, NA.S, res.S), "Bool"})
	r.assume(st, Term{fmt.Sprintf("(forall ((i_ Int)) (! (=> (and (<= 0 i_) (< i_ %s)) (= (select %s (sl_ix (sl_off %s) (+ %s i_))) (select %s (sl_ix %s i_)))) :pattern ((select %s (sl_ix %s i_)))))",
		lt.S, NA.S, res.S, ls.S, T.S, offT.S, T.S, offT.S), "Bool"})
	r.assume(st, implies(eq(lt, intLit(1)), eq(sel(NA, app("Int", "sl_ix", app("Int", "sl_off", res), ls)), sel(T, app("Int", "sl_ix", offT, intLit(0))))))
	if a, ok := r.sliceArr[origS.S]; ok && r.sliceArr != nil {
		// a slice built on an allocation of this function stays on allocations of this function
		_ = a
	}
	r.recordOwned(res, origS)
	return res
}

// recordOwned: the result of appending to a slice whose backing array was allocated by this function (or nil)
// again has a backing array allocated by this function.
func (r *Run) recordOwned(res, from Term) {
	if r.sliceArr == nil {
		r.sliceArr = map[string]string{}
	}
	if from.S == "slice_nil" {
		r.sliceArr[res.S] = "new_own"
		return
	}
	if a, ok := r.sliceArr[from.S]; ok {
		r.sliceArr[res.S] = a
	}
}
