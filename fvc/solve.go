package main

import (
	"bytes"
	"context"
	"fmt"
	"os"
	"os/exec"
	"path/filepath"
	"strings"
	"sync"
	"time"
)

type solverSpec struct {
	name string
	args func(file string, ms int) []string
	bin  string
}

var solvers = []solverSpec{
	{"z3-new", func(f string, ms int) []string { return []string{"-smt2", "-T:" + itoa(ms/1000+1), f} }, "z3-new"},
	{"z3", func(f string, ms int) []string { return []string{"-smt2", "-T:" + itoa(ms/1000+1), f} }, "/usr/bin/z3"},
	// E-matching only (no model-based quantifier instantiation): answers unsat or unknown on quantified goals, often at once
	{"z3-new-ematch", func(f string, ms int) []string {
		return []string{"-smt2", "-T:" + itoa(ms/1000+1), "smt.mbqi=false", "smt.auto_config=false", f}
	}, "z3-new"},
	{"cvc5", func(f string, ms int) []string {
		return []string{"--lang=smt2", "--tlimit=" + itoa(ms), f}
	}, "cvc5"},
}

func itoa(n int) string {
	if n == 0 {
		return "0"
	}
	neg := n < 0
	if neg {
		n = -n
	}
	var b []byte
	for n > 0 {
		b = append([]byte{byte('0' + n%10)}, b...)
		n /= 10
	}
	if neg {
		b = append([]byte{'-'}, b...)
	}
	return string(b)
}

type solveOut struct {
	result string // sat / unsat / unknown / timeout / error
	output string
	ms     int64
}

func runSolver(s solverSpec, file string, ms int) solveOut {
	ctx, cancel := context.WithTimeout(context.Background(), time.Duration(ms+2000)*time.Millisecond)
	defer cancel()
	t0 := time.Now()
	cmd := exec.CommandContext(ctx, s.bin, s.args(file, ms)...)
	var out bytes.Buffer
	cmd.Stdout = &out
	cmd.Stderr = &out
	_ = cmd.Run()
	el := time.Since(t0).Milliseconds()
	txt := out.String()
	for _, ln := range strings.Split(txt, "\n") {
		first := strings.TrimSpace(ln)
		switch first {
		case "sat", "unsat", "unknown":
			return solveOut{first, txt, el}
		}
		if first == "" || strings.HasPrefix(first, "WARNING") || strings.HasPrefix(first, "(warning") || strings.HasPrefix(first, ";") {
			continue
		}
		break
	}
	if ctx.Err() != nil || strings.Contains(txt, "timeout") || strings.Contains(txt, "interrupted") {
		return solveOut{"timeout", txt, el}
	}
	return solveOut{"error", txt, el}
}

// solveObligation races the portfolio on one obligation; the first definitive answer wins.
func solveObligation(o *Obligation, dir string, timeoutMs int, agree bool) {
	scripts := append([]string{o.Script}, o.More...)
	var total int64
	for i, sc := range scripts {
		solveOne(o, sc, i, dir, timeoutMs, agree)
		total += o.Ms
		if o.Result != o.Expect {
			o.FailIdx = i
			if len(scripts) > 1 {
				o.Detail = fmt.Sprintf("[path %d of %d] %s", i+1, len(scripts), o.Detail)
			}
			break
		}
	}
	o.Ms = total
}

func solveOne(o *Obligation, script string, idx int, dir string, timeoutMs int, agree bool) {
	file := filepath.Join(dir, sanitize(o.Name)+".smt2")
	if idx > 0 {
		file = filepath.Join(dir, sanitize(o.Name)+fmt.Sprintf(".p%d.smt2", idx+1))
	}
	if o.Expect == "unsat" {
		script += "(get-model)\n"
	}
	if err := os.WriteFile(file, []byte(script), 0o644); err != nil {
		o.Result, o.Detail = "error", err.Error()
		return
	}
	definitive := func(r string) bool { return r == "sat" || r == "unsat" }
	if o.Expect == "sat" && timeoutMs > 3000 {
		timeoutMs = 3000 // vacuity / cover checks: a model is either found quickly or the check is inconclusive
	}
	t0 := time.Now()
	ctx, cancel := context.WithCancel(context.Background())
	defer cancel()
	type res struct {
		i  int
		so solveOut
	}
	// opaque variant: recursive spec functions become uninterpreted (their assumptions stay, their unfolding goes).
	// This only weakens the hypotheses, so an `unsat` of the variant is an `unsat` of the obligation; `sat` is ignored.
	opaqueFile := ""
	if o.Expect == "unsat" && strings.Contains(script, "(define-fun-rec ") {
		opaqueFile = strings.TrimSuffix(file, ".smt2") + ".opaque.smt2"
		if err := os.WriteFile(opaqueFile, []byte(opaqueRec(script)), 0o644); err != nil {
			opaqueFile = ""
		}
	}
	nRuns := len(solvers)
	if opaqueFile != "" {
		nRuns += 2
	}
	ch := make(chan res, nRuns)
	for i := range solvers {
		go func(i int) { ch <- res{i, runSolverCtx(ctx, solvers[i], file, timeoutMs)} }(i)
	}
	if opaqueFile != "" {
		for k, si := range []int{0, 2} { // z3-new and z3-new-ematch
			go func(k, si int) {
				so := runSolverCtx(ctx, solvers[si], opaqueFile, timeoutMs)
				if so.result != "unsat" {
					so.result = "unknown" // a model of the weakened problem means nothing
				}
				ch <- res{len(solvers) + k, so}
			}(k, si)
		}
	}
	outs := make([]solveOut, nRuns)
	got := 0
	first := -1
	nDef := 0
	for got < nRuns {
		rr := <-ch
		got++
		outs[rr.i] = rr.so
		if definitive(rr.so.result) {
			nDef++
			if first < 0 {
				first = rr.i
			}
			// quick: the first definitive answer wins; thorough: wait for a second, independent definitive answer
			// (agreement or disagreement is then known) or for all configurations to finish
			if !agree || nDef >= 2 {
				cancel()
				break
			}
		}
	}
	o.Ms = time.Since(t0).Milliseconds()
	solverName := func(i int) string {
		if i >= len(solvers) {
			return []string{"z3-new", "z3-new-ematch"}[i-len(solvers)] + "(opaque-rec)"
		}
		return solvers[i].name
	}
	sawSat, sawUnsat := -1, -1
	for i, so := range outs {
		if so.result == "sat" && sawSat < 0 {
			sawSat = i
		}
		if so.result == "unsat" && sawUnsat < 0 {
			sawUnsat = i
		}
	}
	if sawSat >= 0 && sawUnsat >= 0 {
		o.Result, o.Solver = "disagree", solverName(sawSat)+"/"+solverName(sawUnsat)
		o.Detail = "solvers disagree (sat vs unsat)"
		return
	}
	if first < 0 && o.Expect == "sat" {
		// reachability / vacuity check left undecided by the quantifiers: decide its quantifier-free part. A contradiction
		// among the ground assumptions alone already makes the path unreachable (reported as unsat); a model of the ground
		// part means "reachable as far as the ground assumptions go".
		gfile := strings.TrimSuffix(file, ".smt2") + ".ground.smt2"
		if err := os.WriteFile(gfile, []byte(groundOnly(script)), 0o644); err == nil {
			so := runSolver(solvers[0], gfile, 5000)
			if so.result == "sat" || so.result == "unsat" {
				o.Result, o.Solver = so.result, "z3-new(ground assumptions only)"
				o.Ms = time.Since(t0).Milliseconds()
				return
			}
		}
	}
	if first >= 0 {
		o.Result, o.Solver = outs[first].result, solverName(first)
		if outs[first].result == "sat" {
			o.Model = modelOf(outs[first].output)
		}
		return
	}
	o.Result = outs[0].result
	o.Solver = "none"
	var ds []string
	for i, so := range outs {
		ds = append(ds, solverName(i)+": "+so.result+" "+firstLines(so.output, 2))
	}
	o.Detail = strings.Join(ds, " | ")
}

func runSolverCtx(parent context.Context, s solverSpec, file string, ms int) solveOut {
	ctx, cancel := context.WithTimeout(parent, time.Duration(ms+2000)*time.Millisecond)
	defer cancel()
	t0 := time.Now()
	cmd := exec.CommandContext(ctx, s.bin, s.args(file, ms)...)
	var out bytes.Buffer
	cmd.Stdout = &out
	cmd.Stderr = &out
	_ = cmd.Run()
	el := time.Since(t0).Milliseconds()
	txt := out.String()
	for _, ln := range strings.Split(txt, "\n") {
		first := strings.TrimSpace(ln)
		switch first {
		case "sat", "unsat", "unknown":
			return solveOut{first, txt, el}
		}
		if first == "" || strings.HasPrefix(first, "WARNING") || strings.HasPrefix(first, "(warning") || strings.HasPrefix(first, ";") {
			continue
		}
		break
	}
	if ctx.Err() != nil || strings.Contains(txt, "timeout") || strings.Contains(txt, "interrupted") {
		return solveOut{"timeout", txt, el}
	}
	return solveOut{"error", txt, el}
}

func max64(a, b int64) int64 {
	if a > b {
		return a
	}
	return b
}

func firstLines(s string, n int) string {
	ls := strings.Split(strings.TrimSpace(s), "\n")
	if len(ls) > n {
		ls = ls[:n]
	}
	return strings.Join(ls, " / ")
}

func modelOf(out string) string {
	i := strings.Index(out, "sat\n")
	if i < 0 {
		return ""
	}
	return strings.TrimSpace(out[i+4:])
}

func sanitize(s string) string {
	var b strings.Builder
	for _, c := range s {
		switch {
		case c >= 'a' && c <= 'z', c >= 'A' && c <= 'Z', c >= '0' && c <= '9', c == '_', c == '-', c == '.':
			b.WriteRune(c)
		default:
			b.WriteRune('_')
		}
	}
	r := b.String()
	if len(r) > 150 {
		r = r[:150]
	}
	return r
}

func solveAll(obls []*Obligation, dir string, timeoutMs int, workers int, agree bool) {
	ch := make(chan *Obligation)
	var wg sync.WaitGroup
	for w := 0; w < workers; w++ {
		wg.Add(1)
		go func() {
			defer wg.Done()
			for o := range ch {
				solveObligation(o, dir, timeoutMs, agree)
			}
		}()
	}
	for _, o := range obls {
		if o.Result != "" {
			continue // already decided (rebind.go solves a candidate's obligations before accepting it)
		}
		ch <- o
	}
	close(ch)
	wg.Wait()
}

// opaqueRec replaces every (single-line) `(define-fun-rec f ((p S) ...) R body)` by `(declare-fun f (S ...) R)`.
func opaqueRec(script string) string {
	lines := strings.Split(script, "\n")
	for i, ln := range lines {
		if !strings.HasPrefix(ln, "(define-fun-rec ") {
			continue
		}
		rest := strings.TrimPrefix(ln, "(define-fun-rec ")
		sp := strings.Index(rest, " ")
		name := rest[:sp]
		rest = rest[sp+1:]
		// parameter list: balanced parentheses starting at rest[0]
		depth, end := 0, -1
		for j, c := range rest {
			if c == '(' {
				depth++
			} else if c == ')' {
				depth--
				if depth == 0 {
					end = j
					break
				}
			}
		}
		if end < 0 {
			continue
		}
		params := rest[1:end]
		after := strings.TrimSpace(rest[end+1:])
		// return sort: an identifier or a balanced parenthesised sort
		ret := ""
		if strings.HasPrefix(after, "(") {
			d := 0
			for j, c := range after {
				if c == '(' {
					d++
				} else if c == ')' {
					d--
					if d == 0 {
						ret = after[:j+1]
						break
					}
				}
			}
		} else {
			ret = after[:strings.Index(after, " ")]
		}
		// sorts of the parameters: each is "(name sort)"
		var sorts []string
		d, start := 0, -1
		for j, c := range params {
			if c == '(' {
				if d == 0 {
					start = j
				}
				d++
			} else if c == ')' {
				d--
				if d == 0 && start >= 0 {
					p := params[start+1 : j]
					sorts = append(sorts, strings.TrimSpace(p[strings.Index(p, " ")+1:]))
				}
			}
		}
		lines[i] = "(declare-fun " + name + " (" + strings.Join(sorts, " ") + ") " + ret + ")"
	}
	return strings.Join(lines, "\n")
}

// groundOnly drops every assertion that contains a quantifier (top-level `(assert ...)` lines and the cl_N definitions
// they name keep their text, so a quantified definition that is merely defined but not asserted does no harm).
func groundOnly(script string) string {
	lines := strings.Split(script, "\n")
	quantDefs := map[string]bool{}
	for _, ln := range lines {
		if strings.HasPrefix(ln, "(define-fun ") && (strings.Contains(ln, "(forall ") || strings.Contains(ln, "(exists ")) {
			f := strings.Fields(ln)
			if len(f) > 1 {
				quantDefs[f[1]] = true
			}
		}
	}
	var out []string
	for _, ln := range lines {
		if strings.HasPrefix(ln, "(assert ") {
			if strings.Contains(ln, "(forall ") || strings.Contains(ln, "(exists ") {
				continue
			}
			drop := false
			for _, tok := range strings.FieldsFunc(ln, func(r rune) bool { return r == ' ' || r == '(' || r == ')' }) {
				if quantDefs[tok] {
					drop = true
					break
				}
			}
			if drop {
				continue
			}
		}
		out = append(out, ln)
	}
	return strings.Join(out, "\n")
}
