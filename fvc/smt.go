package main

// SMT layer: sorts derived from Go types, term construction helpers, and the
// per-VC script builder (declarations, definitions, assumptions).

import (
	"fmt"
	"go/types"
	"sort"
	"strings"
)

// Term is an SMT-LIB term (as text) plus the Go type it denotes (may be nil for
// pure spec-level terms) and its SMT sort.
type Term struct {
	S    string
	Sort string
}

func (t Term) String() string { return t.S }

var (
	tTrue  = Term{"true", "Bool"}
	tFalse = Term{"false", "Bool"}
)

func intLit(n int64) Term {
	if n < 0 {
		return Term{fmt.Sprintf("(- %d)", -n), "Int"}
	}
	return Term{fmt.Sprintf("%d", n), "Int"}
}
func bigLit(s string) Term {
	if strings.HasPrefix(s, "-") {
		return Term{"(- " + s[1:] + ")", "Int"}
	}
	return Term{s, "Int"}
}

func app(sort string, f string, args ...Term) Term {
	var b strings.Builder
	b.WriteString("(")
	b.WriteString(f)
	for _, a := range args {
		b.WriteString(" ")
		b.WriteString(a.S)
	}
	b.WriteString(")")
	return Term{b.String(), sort}
}

func and(ts ...Term) Term {
	var xs []Term
	for _, t := range ts {
		if t.S == "true" {
			continue
		}
		if t.S == "false" {
			return tFalse
		}
		xs = append(xs, t)
	}
	if len(xs) == 0 {
		return tTrue
	}
	if len(xs) == 1 {
		return xs[0]
	}
	return app("Bool", "and", xs...)
}
func or(ts ...Term) Term {
	var xs []Term
	for _, t := range ts {
		if t.S == "false" {
			continue
		}
		if t.S == "true" {
			return tTrue
		}
		xs = append(xs, t)
	}
	if len(xs) == 0 {
		return tFalse
	}
	if len(xs) == 1 {
		return xs[0]
	}
	return app("Bool", "or", xs...)
}
func not(t Term) Term {
	if t.S == "true" {
		return tFalse
	}
	if t.S == "false" {
		return tTrue
	}
	return app("Bool", "not", t)
}
func implies(a, b Term) Term {
	if a.S == "true" {
		return b
	}
	if a.S == "false" || b.S == "true" {
		return tTrue
	}
	return app("Bool", "=>", a, b)
}
func eq(a, b Term) Term {
	if a.S == b.S {
		return tTrue
	}
	return app("Bool", "=", a, b)
}
func ite(c, a, b Term) Term {
	if c.S == "true" {
		return a
	}
	if c.S == "false" {
		return b
	}
	if a.S == b.S {
		return a
	}
	return app(a.Sort, "ite", c, a, b)
}
func sel(arr, idx Term) Term {
	// (Array K V) -> V
	return app(arrayValSort(arr.Sort), "select", arr, idx)
}
func store(arr, idx, v Term) Term { return app(arr.Sort, "store", arr, idx, v) }

func arraySort(k, v string) string { return "(Array " + k + " " + v + ")" }

// arrayValSort parses "(Array K V)" and returns V.
func arrayValSort(s string) string {
	_, v := splitArraySort(s)
	return v
}
func arrayKeySort(s string) string {
	k, _ := splitArraySort(s)
	return k
}
func splitArraySort(s string) (string, string) {
	if !strings.HasPrefix(s, "(Array ") {
		panic("not an array sort: " + s)
	}
	body := s[len("(Array ") : len(s)-1]
	// split first sort from the second, respecting parens
	depth := 0
	for i, c := range body {
		switch c {
		case '(':
			depth++
		case ')':
			depth--
		case ' ':
			if depth == 0 {
				return body[:i], body[i+1:]
			}
		}
	}
	panic("bad array sort: " + s)
}

// ---------------------------------------------------------------------------
// Universe: global registry of sorts / datatypes / uninterpreted functions,
// shared by all VCs of one fvc run (declarations are emitted per VC on demand).

type structInfo struct {
	sortName string
	ctor     string
	fields   []string // selector names
	ftypes   []types.Type
	fsorts   []string
	typ      types.Type // the (named or literal) struct type
}

type Universe struct {
	structs    map[string]*structInfo // by type key
	structList []*structInfo          // in declaration (dependency) order
	typeIDs    map[string]int         // dynamic type tags for interfaces
	typeIDList []types.Type
	strLits    map[string]string // literal value -> const name
	strLitList []string
	concatPfx  map[string]bool   // literal strings used as the left operand of a concatenation
	ufuncs     map[string]string // name -> full declaration line
	ufuncOrder []string
	axioms     []string // global axioms (asserted in every VC that uses them; kept simple: always)
	axiomSeen  map[string]bool
	defs       []string          // define-fun lines (after datatypes)
	okFuncs    map[string]string // struct sort -> name of its "all refs allocated" predicate ("" if it holds no refs)
}

func newUniverse() *Universe {
	return &Universe{
		structs:   map[string]*structInfo{},
		typeIDs:   map[string]int{},
		strLits:   map[string]string{},
		ufuncs:    map[string]string{},
		axiomSeen: map[string]bool{},
	}
}

func mangle(s string) string {
	var b strings.Builder
	for _, c := range s {
		switch {
		case c >= 'a' && c <= 'z', c >= 'A' && c <= 'Z', c >= '0' && c <= '9', c == '_':
			b.WriteRune(c)
		case c == '.' || c == '/':
			b.WriteRune('_')
		case c == '*':
			b.WriteString("P")
		case c == '[':
			b.WriteString("L")
		case c == ']':
			b.WriteString("R")
		default:
			b.WriteString("x")
		}
	}
	return b.String()
}

func shortTypeName(t types.Type) string {
	return types.TypeString(t, func(p *types.Package) string { return p.Name() })
}

func typeKey(t types.Type) string {
	return types.TypeString(t, func(p *types.Package) string { return p.Path() })
}

func isTimeTime(t types.Type) bool {
	if n, ok := t.(*types.Named); ok {
		o := n.Obj()
		return o.Pkg() != nil && o.Pkg().Path() == "time" && o.Name() == "Time"
	}
	return false
}

func isNamed(t types.Type, pkg, name string) bool {
	if a, ok := t.(*types.Alias); ok {
		t = types.Unalias(a)
	}
	if n, ok := t.(*types.Named); ok {
		o := n.Obj()
		return o.Pkg() != nil && o.Pkg().Path() == pkg && o.Name() == name
	}
	return false
}

// sortOf maps a Go type to an SMT sort name, declaring datatypes on demand.
func (u *Universe) sortOf(t types.Type) string {
	t = types.Unalias(t)
	if isTimeTime(t) {
		return "Time"
	}
	switch tt := t.Underlying().(type) {
	case *types.Basic:
		switch {
		case tt.Info()&types.IsBoolean != 0:
			return "Bool"
		case tt.Info()&types.IsInteger != 0:
			return "Int"
		case tt.Info()&types.IsString != 0:
			return "Str"
		case tt.Info()&types.IsFloat != 0:
			return "Real"
		case tt.Kind() == types.UnsafePointer:
			return "Int"
		case tt.Kind() == types.UntypedNil:
			return "Int"
		}
		return "Int"
	case *types.Pointer, *types.Map, *types.Chan, *types.Signature:
		return "Int"
	case *types.Slice:
		return "Slice"
	case *types.Array:
		return arraySort("Int", u.sortOf(tt.Elem()))
	case *types.Interface:
		return "Iface"
	case *types.Struct:
		return u.structOf(t).sortName
	case *types.Tuple:
		return "Tuple"
	case *types.TypeParam:
		return "Int"
	}
	panic(fmt.Sprintf("sortOf: unsupported type %s", t))
}

func (u *Universe) structOf(t types.Type) *structInfo {
	t = types.Unalias(t)
	key := typeKey(t)
	if si, ok := u.structs[key]; ok {
		return si
	}
	st := t.Underlying().(*types.Struct)
	name := "S_" + mangle(shortTypeName(t))
	if len(name) > 60 {
		name = fmt.Sprintf("%s_%d", name[:50], len(u.structs))
	}
	// ensure uniqueness of the sort name
	for _, o := range u.structs {
		if o.sortName == name {
			name = fmt.Sprintf("%s_%d", name, len(u.structs))
		}
	}
	si := &structInfo{sortName: name, ctor: "mk_" + name, typ: t}
	u.structs[key] = si // (recursion through pointers never re-enters: pointers are Int)
	for i := 0; i < st.NumFields(); i++ {
		f := st.Field(i)
		fname := mangle(f.Name())
		if f.Name() == "_" {
			fname = fmt.Sprintf("blank%d", i)
		}
		si.fields = append(si.fields, fmt.Sprintf("%s_%s", name, fname))
		si.ftypes = append(si.ftypes, f.Type())
		si.fsorts = append(si.fsorts, u.sortOf(f.Type()))
	}
	u.structList = append(u.structList, si)
	return si
}

func (u *Universe) typeID(t types.Type) Term {
	key := typeKey(t)
	if id, ok := u.typeIDs[key]; ok {
		return intLit(int64(id))
	}
	id := len(u.typeIDs) + 1
	u.typeIDs[key] = id
	u.typeIDList = append(u.typeIDList, t)
	return intLit(int64(id))
}

func (u *Universe) strLit(s string) Term {
	if s == "" {
		return Term{"str_empty", "Str"}
	}
	if n, ok := u.strLits[s]; ok {
		return Term{n, "Str"}
	}
	n := fmt.Sprintf("strlit_%d", len(u.strLits))
	u.strLits[s] = n
	u.strLitList = append(u.strLitList, s)
	return Term{n, "Str"}
}

// ufunc declares (once) an uninterpreted function.
func (u *Universe) ufunc(name string, argSorts []string, ret string) {
	if _, ok := u.ufuncs[name]; ok {
		return
	}
	u.ufuncs[name] = fmt.Sprintf("(declare-fun %s (%s) %s)", name, strings.Join(argSorts, " "), ret)
	u.ufuncOrder = append(u.ufuncOrder, name)
}

func (u *Universe) axiom(a string) {
	if u.axiomSeen[a] {
		return
	}
	u.axiomSeen[a] = true
	u.axioms = append(u.axioms, a)
}

// zero value of a Go type
func (u *Universe) zeroOf(t types.Type) Term {
	t = types.Unalias(t)
	if isTimeTime(t) {
		return Term{"time_zero", "Time"}
	}
	switch tt := t.Underlying().(type) {
	case *types.Basic:
		switch {
		case tt.Info()&types.IsBoolean != 0:
			return tFalse
		case tt.Info()&types.IsString != 0:
			return Term{"str_empty", "Str"}
		case tt.Info()&types.IsFloat != 0:
			return Term{"0.0", "Real"}
		}
		return intLit(0)
	case *types.Pointer, *types.Map, *types.Chan, *types.Signature:
		return intLit(0)
	case *types.Slice:
		return Term{"slice_nil", "Slice"}
	case *types.Interface:
		return Term{"iface_nil", "Iface"}
	case *types.Array:
		return u.constArray("Int", u.sortOf(tt.Elem()), u.zeroOf(tt.Elem()))
	case *types.Struct:
		si := u.structOf(t)
		if len(si.fields) == 0 {
			return Term{si.ctor, si.sortName}
		}
		var args []Term
		for _, ft := range si.ftypes {
			args = append(args, u.zeroOf(ft))
		}
		return app(si.sortName, si.ctor, args...)
	}
	panic(fmt.Sprintf("zeroOf: unsupported type %s", t))
}

// preamble emits all sort/datatype/function declarations known to the universe.
func (u *Universe) preamble() string {
	var b strings.Builder
	b.WriteString("(declare-sort Str 0)\n")
	b.WriteString("(declare-datatypes ((Slice 0)) (((mk_slice (sl_arr Int) (sl_off Int) (sl_len Int) (sl_cap Int)))))\n")
	b.WriteString("(declare-datatypes ((Iface 0)) (((mk_iface (if_tag Int) (if_val Int)))))\n")
	b.WriteString("(declare-datatypes ((Time 0)) (((mk_time (t_ns Int) (t_loc Int)))))\n")
	b.WriteString("(define-fun slice_nil () Slice (mk_slice 0 0 0 0))\n")
	b.WriteString("(declare-fun sl_ix (Int Int) Int)\n")
	b.WriteString("(assert (forall ((o Int) (k Int)) (! (= (sl_ix o k) (+ o k)) :pattern ((sl_ix o k)))))\n")
	b.WriteString("(define-fun iface_nil () Iface (mk_iface 0 0))\n")
	b.WriteString("(define-fun time_zero_ns () Int (- 62135596800000000000))\n")
	b.WriteString("(define-fun time_zero () Time (mk_time time_zero_ns 0))\n")
	b.WriteString("(declare-const str_empty Str)\n")
	b.WriteString("(declare-fun str_len (Str) Int)\n")
	b.WriteString("(assert (= (str_len str_empty) 0))\n")
	b.WriteString("(assert (forall ((s Str)) (! (and (>= (str_len s) 0) (=> (= (str_len s) 0) (= s str_empty))) :pattern ((str_len s)))))\n")
	for _, si := range u.structList {
		if len(si.fields) == 0 {
			fmt.Fprintf(&b, "(declare-datatypes ((%s 0)) (((%s))))\n", si.sortName, si.ctor)
			continue
		}
		fmt.Fprintf(&b, "(declare-datatypes ((%s 0)) (((%s", si.sortName, si.ctor)
		for i, f := range si.fields {
			fmt.Fprintf(&b, " (%s %s)", f, si.fsorts[i])
		}
		b.WriteString("))))\n")
	}
	if len(u.strLitList) > 0 {
		names := []string{"str_empty"}
		for _, s := range u.strLitList {
			n := u.strLits[s]
			fmt.Fprintf(&b, "(declare-const %s Str) ; %q\n", n, truncate(s, 60))
			fmt.Fprintf(&b, "(assert (= (str_len %s) %d))\n", n, len(s))
			names = append(names, n)
		}
		if len(names) > 1 {
			fmt.Fprintf(&b, "(assert (distinct %s))\n", strings.Join(names, " "))
		}
	}
	for _, d := range u.defs {
		b.WriteString(d)
		b.WriteString("\n")
	}
	for _, n := range u.ufuncOrder {
		b.WriteString(u.ufuncs[n])
		b.WriteString("\n")
	}
	for _, a := range u.axioms {
		fmt.Fprintf(&b, "(assert %s)\n", a)
	}
	// a literal prefix P followed by anything differs from every literal that does not start with P
	var pfx []string
	for p := range u.concatPfx {
		pfx = append(pfx, p)
	}
	sort.Strings(pfx)
	for _, p := range pfx {
		var ne []string
		for _, l := range append([]string{""}, u.strLitList...) {
			if !strings.HasPrefix(l, p) {
				ne = append(ne, fmt.Sprintf("(not (= (str_concat %s s_) %s))", u.strLit(p).S, u.strLit(l).S))
			}
		}
		if len(ne) > 0 {
			fmt.Fprintf(&b, "(assert (forall ((s_ Str)) (! (and %s true) :pattern ((str_concat %s s_)))))\n", strings.Join(ne, " "), u.strLit(p).S)
		}
	}
	return b.String()
}

// strConcat: string concatenation as an uninterpreted function with its length, left cancellation, and (for a literal
// left operand) distinctness from literals with another prefix.
func (u *Universe) strConcat(a, b Term) Term {
	u.ufunc("str_concat", []string{"Str", "Str"}, "Str")
	u.ufunc("str_unprefix", []string{"Str", "Str"}, "Str")
	u.axiom("(forall ((a Str) (b Str)) (! (= (str_len (str_concat a b)) (+ (str_len a) (str_len b))) :pattern ((str_concat a b))))")
	u.axiom("(forall ((a Str) (b Str)) (! (= (str_unprefix a (str_concat a b)) b) :pattern ((str_concat a b))))")
	for l, n := range u.strLits {
		if n == a.S {
			if u.concatPfx == nil {
				u.concatPfx = map[string]bool{}
			}
			u.concatPfx[l] = true
		}
	}
	return app("Str", "str_concat", a, b)
}

func truncate(s string, n int) string {
	s = strings.ReplaceAll(s, "\n", "\\n")
	if len(s) > n {
		return s[:n] + "..."
	}
	return s
}

// field selector on a struct-sorted term
func (u *Universe) fieldSel(t types.Type, i int, x Term) Term {
	if isTimeTime(t) {
		panic("field access on time.Time")
	}
	si := u.structOf(t)
	// simplify (sel (mk ...)) when syntactically evident is not attempted
	return app(si.fsorts[i], si.fields[i], x)
}

// functional update of field i
func (u *Universe) fieldUpd(t types.Type, i int, x Term, v Term) Term {
	si := u.structOf(t)
	args := make([]Term, len(si.fields))
	for j := range si.fields {
		if j == i {
			args[j] = v
		} else {
			args[j] = app(si.fsorts[j], si.fields[j], x)
		}
	}
	return app(si.sortName, si.ctor, args...)
}

func sortedKeys[V any](m map[string]V) []string {
	ks := make([]string, 0, len(m))
	for k := range m {
		ks = append(ks, k)
	}
	sort.Strings(ks)
	return ks
}

// literalize expands the defined zero-value names so that the term is a syntactic value (cvc5 requires this inside `as const`).
func literalize(s string) string {
	r := strings.NewReplacer("slice_nil", "(mk_slice 0 0 0 0)", "iface_nil", "(mk_iface 0 0)", "time_zero_ns", "(- 62135596800000000000)", "time_zero", "(mk_time (- 62135596800000000000) 0)")
	return r.Replace(s)
}

// constArray returns the array mapping every key to zero. cvc5 accepts `as const` only with syntactic values, so for
// element sorts whose zero mentions an uninterpreted constant (strings) a named array with a defining axiom is used.
func (u *Universe) constArray(keySort, valSort string, zero Term) Term {
	as := arraySort(keySort, valSort)
	lit := literalize(zero.S)
	if !strings.Contains(lit, "str_empty") {
		return Term{fmt.Sprintf("((as const %s) %s)", as, lit), as}
	}
	n := "zarr_" + mangle(as)
	u.ufunc(n, nil, as)
	u.axiom(fmt.Sprintf("(forall ((i %s)) (! (= (select %s i) %s) :pattern ((select %s i))))", keySort, n, zero.S, n))
	return Term{n, as}
}

// okTerm: every reference stored (transitively, through struct values) in v is allocated (<= wm).
// Returns "true" when values of type T hold no references.
func (u *Universe) okTerm(T types.Type, v Term, wm Term) Term {
	T = types.Unalias(T)
	if isTimeTime(T) {
		// instants stored in memory lie within the years 1..9999 (the range the API can represent), as for loaded values
		return and(app("Bool", ">=", app("Int", "t_ns", v), Term{"time_zero_ns", "Int"}), app("Bool", "<=", app("Int", "t_ns", v), Term{"253402300799999999999", "Int"}))
	}
	switch tt := T.Underlying().(type) {
	case *types.Pointer, *types.Map, *types.Chan:
		return app("Bool", "<=", v, wm)
	case *types.Slice:
		// allocated, and a well-formed slice header (wf_slice written out: the prelude defines it after these functions)
		arr, ln, cp, off := app("Int", "sl_arr", v), app("Int", "sl_len", v), app("Int", "sl_cap", v), app("Int", "sl_off", v)
		return and(app("Bool", "<=", arr, wm), app("Bool", ">=", ln, intLit(0)), app("Bool", ">=", cp, ln), app("Bool", ">=", off, intLit(0)), app("Bool", ">=", arr, intLit(0)),
			app("Bool", "<=", cp, Term{"1152921504606846976", "Int"}),
			app("Bool", "=>", eq(arr, intLit(0)), and(eq(ln, intLit(0)), eq(cp, intLit(0)), eq(off, intLit(0)))))
	case *types.Interface:
		return app("Bool", "<=", app("Int", "if_val", v), wm)
	case *types.Struct:
		fn := u.okFunc(T)
		if fn == "" {
			return tTrue
		}
		return app("Bool", fn, v, wm)
	case *types.Array:
		_ = tt
		return tTrue
	}
	return tTrue
}

func (u *Universe) okFunc(T types.Type) string {
	si := u.structOf(T)
	if u.okFuncs == nil {
		u.okFuncs = map[string]string{}
	}
	if fn, ok := u.okFuncs[si.sortName]; ok {
		return fn
	}
	u.okFuncs[si.sortName] = "" // cycle guard (struct values cannot be cyclic)
	var parts []Term
	x, wm := Term{"x", si.sortName}, Term{"wm", "Int"}
	for i, ft := range si.ftypes {
		p := u.okTerm(ft, app(si.fsorts[i], si.fields[i], x), wm)
		if p.S != "true" {
			parts = append(parts, p)
		}
	}
	if len(parts) == 0 {
		return ""
	}
	fn := "ok_" + si.sortName
	u.defs = append(u.defs, fmt.Sprintf("(define-fun %s ((x %s) (wm Int)) Bool %s)", fn, si.sortName, and(parts...).S))
	u.okFuncs[si.sortName] = fn
	return fn
}
