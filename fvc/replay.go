package main

type ReplayResult struct {
	Confirmed bool   `json:"confirmed"`
	Test      string `json:"test,omitempty"`
	Output    string `json:"output,omitempty"`
	Inputs    string `json:"inputs,omitempty"`
	Note      string `json:"note,omitempty"`
}

func tryReplay(e *Engine, o *Obligation, repo, verif string) *ReplayResult {
	return nil
}
