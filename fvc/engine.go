package main

import (
	"fmt"
	"go/ast"
	"go/types"
	"os"
	"path/filepath"
	"sort"
	"strconv"
	"strings"

	"golang.org/x/tools/go/packages"
	"golang.org/x/tools/go/ssa"
	"golang.org/x/tools/go/ssa/ssautil"
)

type HeapDecl struct {
	key, name, sort string
	kind            string     // "H", "A", "MV", "G" or "" (no references tracked)
	T               types.Type // pointee / element / value type
}

type Engine struct {
	remapLoops    map[*FuncContract]bool // contracts whose loop clauses are attached in program order (remap.go)
	u             *Universe
	prog          *ssa.Program
	pkgs          []*packages.Package
	spkgs         map[string]*ssa.Package
	typesPkgs     map[string]*types.Package
	pkgByName     map[string]*types.Package
	importNames   map[string]map[string]string // pkg path -> local import name -> path
	contracts     map[string]*FuncContract     // in-repo: pkgpath::Key ; extern: full name / "iface ..." key
	pures         map[string]*PureFunc
	puresByGoName map[string]*PureFunc
	ghosts        map[string]*GhostVar
	lemmas        []*Lemma
	axioms        []*Axiom
	files         []*ContractFile
	heapDecls     map[string]*HeapDecl
	noops         []string
	repoModule    string
	sweep         bool
	reach         bool
	repoDir       string
	libDir        string
	known         []KnownFinding
}

func newEngine(repoDir, libDir string) *Engine {
	return &Engine{
		u: newUniverse(), spkgs: map[string]*ssa.Package{}, typesPkgs: map[string]*types.Package{}, pkgByName: map[string]*types.Package{},
		importNames: map[string]map[string]string{}, contracts: map[string]*FuncContract{}, pures: map[string]*PureFunc{}, puresByGoName: map[string]*PureFunc{},
		remapLoops: map[*FuncContract]bool{}, ghosts: map[string]*GhostVar{}, heapDecls: map[string]*HeapDecl{}, repoModule: "github.com/furiko-io/furiko", repoDir: repoDir, libDir: libDir,
	}
}

func (e *Engine) load(patterns []string, overlay map[string][]byte) error {
	cfg := &packages.Config{
		Mode:       packages.NeedName | packages.NeedFiles | packages.NeedCompiledGoFiles | packages.NeedImports | packages.NeedDeps | packages.NeedTypes | packages.NeedSyntax | packages.NeedTypesInfo | packages.NeedTypesSizes | packages.NeedModule,
		Dir:        e.repoDir,
		BuildFlags: []string{"-tags=verif"},
		Overlay:    overlay,
		Env:        append(os.Environ(), "GOFLAGS=-mod=mod", "GOPROXY=off", "GOSUMDB=off", "GOTOOLCHAIN=local"),
	}
	pkgs, err := packages.Load(cfg, patterns...)
	if err != nil {
		return err
	}
	nerr := 0
	packages.Visit(pkgs, nil, func(p *packages.Package) {
		for _, er := range p.Errors {
			if nerr < 10 {
				fmt.Fprintf(os.Stderr, "load error: %v\n", er)
			}
			nerr++
		}
	})
	if nerr > 0 {
		return fmt.Errorf("%d package load errors", nerr)
	}
	e.pkgs = pkgs
	prog, spkgs := ssautil.Packages(pkgs, ssa.NaiveForm|ssa.InstantiateGenerics)
	e.prog = prog
	for i, sp := range spkgs {
		if sp == nil {
			continue
		}
		sp.Build()
		e.spkgs[pkgs[i].PkgPath] = sp
	}
	packages.Visit(pkgs, nil, func(p *packages.Package) {
		if p.Types != nil {
			e.typesPkgs[p.PkgPath] = p.Types
			if _, ok := e.pkgByName[p.Types.Name()]; !ok || strings.HasPrefix(p.PkgPath, e.repoModule) {
				e.pkgByName[p.Types.Name()] = p.Types
			}
		}
	})
	// well-known short names win over accidental duplicates
	for _, wk := range []struct{ name, path string }{{"time", "time"}, {"metav1", "k8s.io/apimachinery/pkg/apis/meta/v1"}, {"corev1", "k8s.io/api/core/v1"},
		{"execution", "github.com/furiko-io/furiko/apis/execution/v1alpha1"}, {"configv1alpha1", "github.com/furiko-io/furiko/apis/config/v1alpha1"},
		{"apierrors", "k8s.io/apimachinery/pkg/api/errors"}, {"strings", "strings"}, {"sort", "sort"}, {"errors", "github.com/pkg/errors"}, {"fmt", "fmt"}, {"strconv", "strconv"},
		{"coreerrors", "github.com/furiko-io/furiko/pkg/core/errors"}, {"jobtasks", "github.com/furiko-io/furiko/pkg/execution/tasks"},
		{"jobconfig", "github.com/furiko-io/furiko/pkg/execution/util/jobconfig"}, {"jobutil", "github.com/furiko-io/furiko/pkg/execution/util/job"}} {
		if p, ok := e.typesPkgs[wk.path]; ok {
			e.pkgByName[wk.name] = p
		}
	}
	for _, p := range pkgs {
		m := map[string]string{}
		for _, f := range p.Syntax {
			for _, is := range f.Imports {
				path, _ := strconv.Unquote(is.Path.Value)
				name := ""
				if is.Name != nil {
					name = is.Name.Name
				} else if tp, ok := e.typesPkgs[path]; ok {
					name = tp.Name()
				} else {
					name = filepath.Base(path)
				}
				m[name] = path
			}
		}
		e.importNames[p.PkgPath] = m
	}
	return nil
}

// loadContracts reads zz_contracts_verif.go of every loaded repo package and lib/*.spec.
func (e *Engine) loadContracts() error {
	specs, _ := filepath.Glob(filepath.Join(e.libDir, "*.spec"))
	sort.Strings(specs)
	for _, s := range specs {
		cf, err := parseContractFile(s, "", false)
		if err != nil {
			return err
		}
		e.addContractFile(cf)
	}
	if data, err := os.ReadFile(filepath.Join(e.libDir, "noops.txt")); err == nil {
		for _, ln := range strings.Split(string(data), "\n") {
			ln = strings.TrimSpace(ln)
			if ln != "" && !strings.HasPrefix(ln, "#") {
				e.noops = append(e.noops, ln)
			}
		}
	}
	for _, p := range e.pkgs {
		for _, f := range p.GoFiles {
			if filepath.Base(f) == "zz_contracts_verif.go" {
				cf, err := parseContractFile(f, p.PkgPath, true)
				if err != nil {
					return err
				}
				e.addContractFile(cf)
			}
		}
	}
	return nil
}

func (e *Engine) addContractFile(cf *ContractFile) {
	e.files = append(e.files, cf)
	for alias, path := range cf.Imports {
		if e.importNames[cf.PkgPath] == nil {
			e.importNames[cf.PkgPath] = map[string]string{}
		}
		e.importNames[cf.PkgPath][alias] = path
	}
	for _, fc := range cf.Funcs {
		if fc.Extern && cf.PkgPath != "" && !strings.ContainsAny(fc.Key, "/(") && !strings.HasPrefix(fc.Key, "iface ") && !strings.HasPrefix(fc.Key, "dyn ") {
			// assumed contract of an in-repo function (body not verified): listed as an assumption
			e.contracts[cf.PkgPath+"::"+fc.Key] = fc
			fc.Key = cf.PkgPath + "::" + fc.Key + " (in-repo, assumed)"
		} else if fc.Extern {
			e.contracts[fc.Key] = fc
		} else {
			e.contracts[cf.PkgPath+"::"+fc.Key] = fc
		}
	}
	for _, pf := range cf.Pures {
		e.pures[cf.PkgPath+"::"+pf.Name] = pf
	}
	for _, g := range cf.Ghosts {
		e.ghosts[cf.PkgPath+"::"+g.Name] = g
	}
	e.lemmas = append(e.lemmas, cf.Lemmas...)
	e.axioms = append(e.axioms, cf.Axioms...)
}

func (e *Engine) inRepo(fn *ssa.Function) bool {
	if fn.Pkg == nil {
		if fn.Origin() != nil && fn.Origin().Pkg != nil {
			return strings.HasPrefix(fn.Origin().Pkg.Pkg.Path(), e.repoModule)
		}
		return false
	}
	return strings.HasPrefix(fn.Pkg.Pkg.Path(), e.repoModule)
}

// contractFor finds the contract of a static callee.
func (e *Engine) contractFor(fn *ssa.Function) *FuncContract {
	if fn.Origin() != nil {
		fn = fn.Origin()
	}
	if fc, ok := e.contracts[fn.String()]; ok {
		return fc
	}
	if fn.Pkg != nil {
		if fc, ok := e.contracts[fn.Pkg.Pkg.Path()+"::"+relName(fn)]; ok {
			return fc
		}
	}
	return nil
}

func (e *Engine) specPkgFor(fc *FuncContract, fn *ssa.Function) *types.Package {
	if fc != nil && fc.PkgPath != "" {
		return e.typesPkgs[fc.PkgPath]
	}
	if fn != nil && fn.Pkg != nil {
		return fn.Pkg.Pkg
	}
	return nil
}

// findFunc resolves "Name" / "Recv.Name" / "Outer$1" in a package.
func (e *Engine) findFunc(pkgPath, key string) *ssa.Function {
	sp := e.spkgs[pkgPath]
	if sp == nil {
		return nil
	}
	base := key
	var anon []string
	if i := strings.Index(key, "$"); i >= 0 {
		base = key[:i]
		anon = strings.Split(key[i+1:], "$")
	}
	var fn *ssa.Function
	if i := strings.Index(base, "."); i >= 0 {
		tn, mn := base[:i], base[i+1:]
		tm, ok := sp.Members[tn].(*ssa.Type)
		if !ok {
			return nil
		}
		for _, T := range []types.Type{tm.Type(), types.NewPointer(tm.Type())} {
			ms := e.prog.MethodSets.MethodSet(T)
			for j := 0; j < ms.Len(); j++ {
				if ms.At(j).Obj().Name() == mn {
					f := e.prog.MethodValue(ms.At(j))
					if f != nil && f.Synthetic == "" {
						fn = f
					}
				}
			}
		}
	} else {
		fn = sp.Func(base)
	}
	for _, a := range anon {
		if fn == nil {
			return nil
		}
		n, err := strconv.Atoi(a)
		if err != nil || n < 1 || n > len(fn.AnonFuncs) {
			return nil
		}
		fn = fn.AnonFuncs[n-1]
	}
	return fn
}

// ---------------------------------------------------------------------------

type FuncResult struct {
	Func         string
	Key          string
	Pkg          string
	Status       string // "verified-input" (obligations generated) / "outside-subset"
	Error        string
	Obligations  []*Obligation
	Inlined      []string
	Externs      []string
	Natives      []string
	Noops        []string
	Notes        []string
	Inputs       []inputVar
	Used         []*FuncContract // callee contracts (non-extern) relied upon
	UnknownIdent string          // the contract names something the function no longer has (see rebind.go)
	FC           *FuncContract
	Remapped     bool
}

func newRun(e *Engine, fn *ssa.Function, fc *FuncContract) *Run {
	return &Run{eng: e, top: fn, contract: fc, heapVer: map[string]int{}, inlined: map[string]bool{}, externs: map[string]bool{}, natives: map[string]bool{}, noops: map[string]bool{},
		safetyN: map[string]int{}, declared: map[string]bool{}, pureInsts: map[string]*pureInst{}}
}

// verifyFunc generates the obligations of one function under contract.
func (e *Engine) verifyFunc(fc *FuncContract) (res *FuncResult) {
	return e.verifyFuncAlias(fc, nil)
}

func (e *Engine) verifyFuncAlias(fc *FuncContract, alias map[string]string) (res *FuncResult) {
	return e.verifyFuncOpts(fc, alias, e.remapLoops[fc])
}

// verifyFuncOpts: alias re-binds names of locals (rebind.go); remap attaches the contract's loop clauses to the loops of
// the function and of its inlined helpers in program order instead of by ordinal within the function (remap.go).
func (e *Engine) verifyFuncOpts(fc *FuncContract, alias map[string]string, remap bool) (res *FuncResult) {
	res = &FuncResult{Key: fc.Key, Pkg: fc.PkgPath, FC: fc, Remapped: remap}
	fn := e.findFunc(fc.PkgPath, fc.Key)
	if fn == nil {
		res.Status = "stale"
		res.Error = fmt.Sprintf("function %s not found in %s (renamed or removed?)", fc.Key, fc.PkgPath)
		return
	}
	res.Func = fn.String()
	r := newRun(e, fn, fc)
	if remap {
		r.loopRemap = e.loopProgramOrder(fn, fc)
		if r.loopRemap == nil {
			res.Status = "outside-subset"
			res.Error = "loop clauses cannot be matched to the loops of the function and its inlined helpers"
			return
		}
	}
	r.localAlias = map[string]string{}
	for k, v := range alias {
		r.localAlias[k] = v
	}
	// a `params` clause names the parameters by position: inside loop invariants such a name denotes the current value of
	// the parameter variable, whatever the source calls it now
	for i, p := range fn.Params {
		if i < len(fc.Params) && fc.Params[i] != p.Name() && fc.Params[i] != "_" {
			if _, ok := r.localAlias[fc.Params[i]]; !ok {
				r.localAlias[fc.Params[i]] = p.Name()
			}
		}
	}
	defer func() {
		res.Inlined, res.Externs, res.Natives, res.Noops = keysOf(r.inlined), keysOf(r.externs), keysOf(r.natives), keysOf(r.noops)
		for fc := range r.usedContracts {
			res.Used = append(res.Used, fc)
		}
		res.Notes = r.assumeNotes
		for _, a := range r.axiomsUsed {
			res.Notes = append(res.Notes, "assumed axiom: "+a)
		}
		res.Inputs = r.inputs
		if x := recover(); x != nil {
			if ee, ok := x.(execErr); ok {
				res.Status = "outside-subset"
				res.Error = ee.msg
				res.UnknownIdent = ee.ident
				return
			}
			if se, ok := x.(specErr); ok {
				res.Status = "outside-subset"
				res.Error = "spec: " + se.msg
				res.UnknownIdent = se.ident
				return
			}
			if os.Getenv("FVC_PANIC") != "" {
				panic(x)
			}
			// an internal error of the generator on this function: the function is undecided, not the whole check
			res.Status = "outside-subset"
			res.Error = fmt.Sprintf("internal error of the condition generator: %v", x)
			return
		}
	}()
	r.verifyTop()
	res.Status = "ok"
	// finalize scripts: prepend universe preamble
	pre := smtHeader + e.u.preamble() + smtPrelude
	for _, o := range r.obls {
		o.Script = pre + o.Script + "(check-sat)\n"
		for i := range o.More {
			o.More[i] = pre + o.More[i] + "(check-sat)\n"
		}
	}
	res.Obligations = r.obls
	return
}

const smtHeader = "(set-option :produce-models true)\n(set-logic ALL)\n"

const smtPrelude = `(define-fun go_div ((a Int) (b Int)) Int (ite (>= a 0) (ite (> b 0) (div a b) (- (div a (- b)))) (ite (> b 0) (- (div (- a) b)) (div (- a) (- b)))))
(define-fun go_rem ((a Int) (b Int)) Int (- a (* b (go_div a b))))
(define-fun wf_slice ((s Slice)) Bool (and (>= (sl_len s) 0) (<= (sl_cap s) 1152921504606846976) (>= (sl_off s) 0) (>= (sl_cap s) (sl_len s)) (>= (sl_arr s) 0) (=> (= (sl_arr s) 0) (and (= (sl_len s) 0) (= (sl_cap s) 0) (= (sl_off s) 0)))))
(define-fun wf_iface ((i Iface)) Bool (and (>= (if_tag i) 0) (=> (= (if_tag i) 0) (= (if_val i) 0))))
(declare-const loc_local Int)
(define-fun wf_time ((t Time)) Bool (and (>= (t_ns t) time_zero_ns) (<= (t_ns t) 253402300799999999999)))
(define-fun max_alloc () Int 1152921504606846976)
`

func keysOf(m map[string]bool) []string {
	var ks []string
	for k := range m {
		ks = append(ks, k)
	}
	sort.Strings(ks)
	return ks
}

func (r *Run) verifyTop() {
	e := r.eng
	fn := r.top
	fc := r.contract
	st := &State{pc: tTrue, locals: map[*ssa.Alloc]Term{}, heaps: map[string]Term{}}
	// watermark
	wm := r.heapGet(st, e.heapKeyAlloc())
	r.assume(st, app("Bool", ">=", wm, intLit(0)))
	// parameters
	var args []Val
	pkg := fn.Pkg.Pkg
	env := &SpecEnv{run: r, pkg: pkg, cur: st, old: st, vars: map[string]SV{}, fc: fc}
	for i, p := range fn.Params {
		s := e.u.sortOf(p.Type())
		t := r.havoc("in_"+mangle(p.Name()), s)
		r.knownFacts(st, t, p.Type())
		args = append(args, t)
		env.vars[p.Name()] = SV{t: t, T: p.Type()}
		env.vars[fmt.Sprintf("arg%d", i)] = SV{t: t, T: p.Type()}
		if i < len(fc.Params) {
			env.vars[fc.Params[i]] = SV{t: t, T: p.Type()}
		}
		r.inputs = append(r.inputs, inputVar{Name: p.Name(), Term: t.S, Sort: s, Type: shortTypeName(p.Type())})
	}
	var bindings []Val
	for _, fv := range fn.FreeVars {
		t := r.havoc("fv_"+mangle(fv.Name()), "Int")
		r.knownFacts(st, t, fv.Type())
		r.assume(st, app("Bool", ">", t, intLit(0)))
		bindings = append(bindings, t)
		T := deref(fv.Type())
		env.vars["&"+fv.Name()] = SV{t: t, T: fv.Type()}
		_ = T
	}
	// free variables are distinct cells
	for i := range bindings {
		for j := i + 1; j < len(bindings); j++ {
			if types.Identical(fn.FreeVars[i].Type(), fn.FreeVars[j].Type()) {
				r.assume(st, not(eq(bindings[i].(Term), bindings[j].(Term))))
			}
		}
	}
	entry := st.clone()
	r.entryState = entry
	r.entryEnv = env
	envPre := *env
	envPre.frame = nil
	// closures: free variable names denote cell contents
	for i, fv := range fn.FreeVars {
		T := deref(fv.Type())
		env.vars[fv.Name()] = SV{t: sel(r.heapGet(st, e.heapKeyObj(T)), bindings[i].(Term)), T: T}
	}
	for _, cl := range fc.Requires {
		r.assume(st, r.evalBool(env, cl))
	}
	for _, cl := range fc.Assumes {
		r.assume(st, r.evalBool(env, cl))
		r.noteAssume(fmt.Sprintf("assumed on the inputs of %s (not checked at call sites): %s", r.funcLabel(), cl.Src))
	}
	// guards of known findings on this function's obligations (evaluated over the entry state)
	r.guards = map[string]*Term{}
	for i := range e.known {
		kf := &e.known[i]
		if kf.Status != "known" || !strings.HasPrefix(kf.Obligation, r.funcLabel()+"#") {
			continue
		}
		if strings.TrimSpace(kf.Guard) == "" {
			r.guards[kf.Obligation] = nil
			continue
		}
		ge, err := parseExpr(kf.Guard)
		if err != nil {
			unsupported("known_findings.json: guard of %s: %v", kf.ID, err)
		}
		g := r.evalBool(env, &Clause{Label: "guard", E: ge, Src: kf.Guard, File: "known_findings.json"})
		r.guards[kf.Obligation] = &g
	}
	// vacuity: the preconditions must be satisfiable
	r.satCheck(st, r.funcLabel()+"#vacuity:requires", fc.Tags, tTrue)
	out, res := r.execFunction(fn, args, bindings, st, true, fc)
	if out == nil {
		r.noteAssume("function never returns normally on any path")
		return
	}
	// postconditions
	penv := &SpecEnv{run: r, pkg: pkg, cur: out, old: entry, vars: map[string]SV{}, fc: fc}
	for k, v := range env.vars {
		penv.vars[k] = v
	}
	for i, fv := range fn.FreeVars {
		T := deref(fv.Type())
		penv.vars[fv.Name()] = SV{t: sel(r.heapGet(out, e.heapKeyObj(T)), bindings[i].(Term)), T: T}
	}
	sig := fn.Signature
	rn := resultNames(sig)
	for i := 0; i < sig.Results().Len(); i++ {
		T := sig.Results().At(i).Type()
		sv := SV{T: T}
		switch v := res[i].(type) {
		case Term:
			sv.t = v
		default:
			unsupported("result %d of %s is not a term", i, fn)
		}
		penv.vars[rn[i]] = sv
		penv.vars[fmt.Sprintf("result%d", i)] = sv
		if sig.Results().Len() == 1 {
			penv.vars["result"] = sv
		}
	}
	// reachability of the exit (anti-vacuity of assumed callee posts / invariants)
	r.satCheck(out, r.funcLabel()+"#vacuity:exit", fc.Tags, tTrue)
	if e.reach {
		// every return path should be reachable; an unreachable one is dead code or a contradiction among assumptions
		for i, rr := range r.topRets {
			r.satCheck(rr.st, fmt.Sprintf("%s#reach:path%d", r.funcLabel(), i+1), fc.Tags, tTrue)
			r.obls[len(r.obls)-1].Kind = "reach"
		}
	}
	perPath := len(r.topRets) > 1 && len(r.topRets) <= 16
	for _, cl := range fc.Ensures {
		if !perPath {
			g := r.evalBool(penv, cl)
			r.oblige(out, "ensures", fmt.Sprintf("%s#ensures:%s", r.funcLabel(), cl.Label), mergeTags(cl.Tags, nil), g, cl.Src, true, fn.Pos())
			if n := len(r.obls); n > 0 && r.obls[n-1].Replay != nil && r.obls[n-1].Kind == "ensures" {
				var rv []replayVar
				for i := 0; i < sig.Results().Len(); i++ {
					if sv, ok := penv.vars[fmt.Sprintf("result%d", i)]; ok {
						rv = append(rv, replayVar{Name: rn[i], Term: sv.t.S, T: sig.Results().At(i).Type()})
					}
				}
				r.obls[n-1].Replay.Rets = [][]replayVar{rv}
			}
			continue
		}
		// one query per return path (no ite-merged heaps), reported as one obligation
		var sts []*State
		var goals []Term
		for _, rr := range r.topRets {
			e2 := &SpecEnv{run: r, pkg: pkg, cur: rr.st, old: entry, vars: map[string]SV{}, fc: fc}
			for k, v := range env.vars {
				e2.vars[k] = v
			}
			for i, fv := range fn.FreeVars {
				T := deref(fv.Type())
				e2.vars[fv.Name()] = SV{t: sel(r.heapGet(rr.st, e.heapKeyObj(T)), bindings[i].(Term)), T: T}
			}
			for i := 0; i < sig.Results().Len(); i++ {
				T := sig.Results().At(i).Type()
				t, ok := rr.vals[i].(Term)
				if !ok {
					unsupported("result %d of %s is not a term", i, fn)
				}
				sv := SV{t: t, T: T}
				e2.vars[rn[i]] = sv
				e2.vars[fmt.Sprintf("result%d", i)] = sv
				if sig.Results().Len() == 1 {
					e2.vars["result"] = sv
				}
			}
			sts = append(sts, rr.st)
			goals = append(goals, r.evalBool(e2, cl))
		}
		r.obligeMulti(sts, goals, "ensures", fmt.Sprintf("%s#ensures:%s", r.funcLabel(), cl.Label), mergeTags(cl.Tags, nil), cl.Src, true, fn.Pos())
		// result terms per path, for the replay of a counterexample
		if n := len(r.obls); n > 0 && r.obls[n-1].Replay != nil && r.obls[n-1].Kind == "ensures" {
			for _, rr := range r.topRets {
				var rv []replayVar
				for i := 0; i < sig.Results().Len(); i++ {
					if t, ok := rr.vals[i].(Term); ok {
						rv = append(rv, replayVar{Name: rn[i], Term: t.S, T: sig.Results().At(i).Type()})
					}
				}
				r.obls[n-1].Replay.Rets = append(r.obls[n-1].Replay.Rets, rv)
			}
		}
	}
	r.checkFrame(penv, entry, out)
}

// verifyLemma: a closed formula over spec functions must be valid.
func (e *Engine) verifyLemma(l *Lemma) (res *FuncResult) {
	res = &FuncResult{Key: "lemma " + l.Name, Pkg: l.PkgPath, Func: "lemma " + l.Name}
	r := &Run{eng: e, heapVer: map[string]int{}, inlined: map[string]bool{}, externs: map[string]bool{}, natives: map[string]bool{}, noops: map[string]bool{},
		safetyN: map[string]int{}, declared: map[string]bool{}, pureInsts: map[string]*pureInst{}}
	defer func() {
		if x := recover(); x != nil {
			if ee, ok := x.(execErr); ok {
				res.Status, res.Error = "outside-subset", ee.msg
				return
			}
			if se, ok := x.(specErr); ok {
				res.Status, res.Error = "outside-subset", "spec: "+se.msg
				return
			}
			panic(x)
		}
	}()
	st := &State{pc: tTrue, locals: map[*ssa.Alloc]Term{}, heaps: map[string]Term{}}
	env := &SpecEnv{run: r, pkg: e.typesPkgs[l.PkgPath], cur: st, old: st, vars: map[string]SV{}}
	cl := &Clause{Label: l.Name, E: l.E, Src: l.Src, File: l.File, Line: l.Line}
	g := r.evalBool(env, cl)
	var b strings.Builder
	for _, ln := range r.lines {
		b.WriteString(ln.text + "\n")
	}
	fmt.Fprintf(&b, "(assert (not %s))\n(check-sat)\n", g.S)
	pkgName := "lib"
	if p := e.typesPkgs[l.PkgPath]; p != nil {
		pkgName = p.Name()
	}
	o := &Obligation{Name: pkgName + "#lemma:" + l.Name, Kind: "lemma", Tags: l.Tags, Func: "lemma " + l.Name, Src: l.Src, Expect: "unsat", Claimed: true}
	o.Script = smtHeader + e.u.preamble() + smtPrelude + b.String()
	for i := range e.known {
		if e.known[i].Status == "known" && e.known[i].Obligation == o.Name {
			// a lemma recorded as a known finding: reported as known while it still fails
			o.Name += "?known"
			o.Kind = "known-finding"
		}
	}
	res.Status = "ok"
	res.Obligations = []*Obligation{o}
	return
}

var _ = ast.Inspect
