package main

// Translation of contract expressions to SMT terms in a symbolic state.

import (
	"fmt"
	"go/constant"
	"go/types"
	"sort"
	"strings"

	"golang.org/x/tools/go/ssa"
)

// SV is a spec value: a term with its Go type (T may be nil for purely logical values).
type SV struct {
	t      Term
	T      types.Type
	loc    *Loc // when the value is an address that has no term form (interior pointer)
	isAddr bool
	fn     *ssa.Function
	clo    *Closure
	pkg    *types.Package // identifier denotes an imported package
	tyName types.Type     // identifier denotes a type
}

type SpecEnv struct {
	run     *Run
	pkg     *types.Package
	cur     *State
	old     *State
	loopPre *State
	vars    map[string]SV
	bound   map[string]SV
	frame   *Frame // for local-variable lookup in loop invariants
	loop    *loopInfo // the loop whose clauses are being evaluated (rangeindex is that loop's hidden index)
	fc      *FuncContract
	inPure  bool
	inOld   bool
	iterKey string
}

type specErr struct {
	msg   string
	ident string // set for "unknown identifier" failures
}

func (e specErr) Error() string { return e.msg }

func specFail(f string, a ...interface{}) { panic(specErr{msg: fmt.Sprintf(f, a...)}) }

func (env *SpecEnv) with(name string, sv SV) *SpecEnv {
	n := *env
	n.bound = map[string]SV{}
	for k, v := range env.bound {
		n.bound[k] = v
	}
	n.bound[name] = sv
	return &n
}

func (env *SpecEnv) inState(st *State) *SpecEnv {
	n := *env
	n.cur = st
	return &n
}

func (r *Run) evalBool(env *SpecEnv, cl *Clause) (t Term) {
	defer func() {
		if x := recover(); x != nil {
			if se, ok := x.(specErr); ok {
				panic(execErr{msg: fmt.Sprintf("%s:%d: in clause %q: %s", cl.File, cl.Line, cl.Src, se.msg), ident: se.ident})
			}
			panic(x)
		}
	}()
	sv := r.eval(env, cl.E)
	if sv.t.Sort != "Bool" {
		specFail("clause is not boolean (sort %s)", sv.t.Sort)
	}
	return r.def("cl", sv.t)
}

var basicTypes = map[string]types.Type{
	"int": types.Typ[types.Int], "int64": types.Typ[types.Int64], "int32": types.Typ[types.Int32], "uint64": types.Typ[types.Uint64],
	"uint32": types.Typ[types.Uint32], "uint": types.Typ[types.Uint], "uint8": types.Typ[types.Uint8], "byte": types.Typ[types.Uint8],
	"string": types.Typ[types.String], "bool": types.Typ[types.Bool], "float64": types.Typ[types.Float64], "error": types.Universe.Lookup("error").Type(),
	"any": types.NewInterfaceType(nil, nil),
}

func (e *Engine) resolveType(pkg *types.Package, te TypeExpr) types.Type {
	switch te.Kind {
	case "ptr":
		return types.NewPointer(e.resolveType(pkg, *te.Elem))
	case "slice":
		return types.NewSlice(e.resolveType(pkg, *te.Elem))
	case "map":
		return types.NewMap(e.resolveType(pkg, *te.Key), e.resolveType(pkg, *te.Elem))
	case "array":
		return &logicalArray{key: e.resolveType(pkg, *te.Key), elem: e.resolveType(pkg, *te.Elem)}
	}
	if te.Pkg == "" {
		if t, ok := basicTypes[te.Name]; ok {
			return t
		}
		if te.Name == "Int" {
			return types.Typ[types.UntypedInt] // mathematical integer
		}
		if pkg != nil {
			if o := pkg.Scope().Lookup(te.Name); o != nil {
				if tn, ok := o.(*types.TypeName); ok {
					return tn.Type()
				}
			}
		}
		specFail("unknown type %s", te.Name)
	}
	p := e.importedPkg(pkg, te.Pkg)
	if p == nil {
		specFail("unknown package %s in type %s", te.Pkg, te)
	}
	o := p.Scope().Lookup(te.Name)
	if tn, ok := o.(*types.TypeName); ok {
		return tn.Type()
	}
	specFail("unknown type %s", te)
	return nil
}

// importedPkg finds a package imported (under local name `name`) by any file of pkg.
func (e *Engine) importedPkg(pkg *types.Package, name string) *types.Package {
	if pkg != nil {
		if m, ok := e.importNames[pkg.Path()]; ok {
			if path, ok := m[name]; ok {
				if p := e.typesPkgs[path]; p != nil {
					return p
				}
			}
		}
	}
	// fall back: any known package with that name (lib specs)
	if p, ok := e.pkgByName[name]; ok {
		return p
	}
	return nil
}

func (r *Run) sortOfSpecType(T types.Type) string {
	if b, ok := T.(*types.Basic); ok && b.Kind() == types.UntypedInt {
		return "Int"
	}
	if la, ok := T.(*logicalArray); ok {
		return arraySort(r.sortOfSpecType(la.key), r.sortOfSpecType(la.elem))
	}
	return r.eng.u.sortOf(T)
}

// logicalArray is a specification-only type: a total map (SMT array) from key to elem.
type logicalArray struct{ key, elem types.Type }

func (l *logicalArray) Underlying() types.Type { return l }
func (l *logicalArray) String() string         { return "Array[" + l.key.String() + "]" + l.elem.String() }

func (r *Run) eval(env *SpecEnv, e Expr) SV {
	u := r.eng.u
	switch x := e.(type) {
	case EInt:
		return SV{t: bigLit(x.V), T: types.Typ[types.UntypedInt]}
	case EStr:
		return SV{t: u.strLit(x.V), T: types.Typ[types.String]}
	case EBool:
		if x.V {
			return SV{t: tTrue, T: types.Typ[types.Bool]}
		}
		return SV{t: tFalse, T: types.Typ[types.Bool]}
	case ENil:
		return SV{t: Term{"nil", "?"}, T: types.Typ[types.UntypedNil]}
	case EIdent:
		sv := r.evalIdent(env, x.Name)
		if sv.pkg != nil {
			// a package name where a value is expected: the contract means a variable of that name that no longer exists
			panic(specErr{msg: "unknown identifier " + x.Name + " (only a package of that name is in scope)", ident: x.Name})
		}
		return sv
	case EOld:
		if env.old == nil {
			specFail("old() not available here")
		}
		n := *env
		n.cur = env.old
		n.inOld = true
		return r.eval(&n, x.X)
	case ELet:
		v := r.eval(env, x.Val)
		if v.t.S != "" && v.t.S != "nil" {
			if r.noDef == 0 && strings.Contains(v.t.S, " ") {
				// a constant (not a macro), so that the bound name can be used inside quantifier patterns
				c := r.havoc("let_"+x.Name, v.t.Sort)
				r.emit(fmt.Sprintf("(assert (= %s %s))", c.S, v.t.S))
				v.t = c
			} else {
				v.t = r.def("let_"+x.Name, v.t)
			}
		}
		return r.eval(env.with(x.Name, v), x.Body)
	case EUnary:
		switch x.Op {
		case "!":
			v := r.eval(env, x.X)
			return SV{t: not(v.t), T: types.Typ[types.Bool]}
		case "-":
			v := r.eval(env, x.X)
			return SV{t: app(v.t.Sort, "-", v.t), T: v.T}
		case "*":
			v := r.eval(env, x.X)
			return r.derefSV(env, v)
		}
	case EBinary:
		return r.evalBinary(env, x)
	case ECond:
		c := r.eval(env, x.C)
		a := r.eval(env, x.A)
		b := r.eval(env, x.B)
		a, b = r.unifyNil(a, b)
		T := a.T
		if isUntyped(T) {
			T = b.T
		}
		return SV{t: ite(c.t, a.t, b.t), T: T}
	case ESel:
		return r.evalSel(env, x)
	case EIndex:
		return r.evalIndex(env, x)
	case ECall:
		return r.evalCall(env, x)
	case EQuant:
		return r.evalQuant(env, x)
	}
	specFail("unsupported expression %s", exprString(e))
	return SV{}
}

func isUntyped(T types.Type) bool {
	if T == nil {
		return true
	}
	b, ok := T.(*types.Basic)
	return ok && b.Info()&types.IsUntyped != 0
}

func (r *Run) unifyNil(a, b SV) (SV, SV) {
	if a.t.S == "nil" && b.t.S != "nil" {
		a = SV{t: r.eng.u.zeroOf(b.T), T: b.T}
	}
	if b.t.S == "nil" && a.t.S != "nil" {
		b = SV{t: r.eng.u.zeroOf(a.T), T: a.T}
	}
	return a, b
}

func (r *Run) evalIdent(env *SpecEnv, name string) SV {
	if sv, ok := env.bound[name]; ok {
		return sv
	}
	// inside old(): a parameter name denotes its value at function entry
	if env.inOld {
		if sv, ok := env.vars[name]; ok {
			return sv
		}
	}
	// loop invariants: current value of a local variable takes precedence over the parameter's entry value
	if env.frame != nil {
		if sv, ok := env.frame.localByNameIn(env.cur, name, env.loop); ok {
			return sv
		}
	}
	if sv, ok := env.vars[name]; ok {
		return sv
	}
	// ghost variables
	if env.pkg != nil {
		if g, ok := r.eng.ghosts[env.pkg.Path()+"::"+name]; ok {
			return r.ghostSV(env, g)
		}
	}
	if g, ok := r.eng.ghosts["::"+name]; ok {
		return r.ghostSV(env, g)
	}
	// package-level objects
	if env.pkg != nil {
		if o := env.pkg.Scope().Lookup(name); o != nil {
			return r.objectSV(env, o)
		}
		if p := r.eng.importedPkg(env.pkg, name); p != nil {
			return SV{pkg: p}
		}
	}
	if p := r.eng.importedPkg(nil, name); p != nil {
		return SV{pkg: p}
	}
	if T, ok := basicTypes[name]; ok {
		return SV{tyName: T}
	}
	panic(specErr{msg: "unknown identifier " + name, ident: name})
	return SV{}
}

func (r *Run) ghostSV(env *SpecEnv, g *GhostVar) SV {
	T := r.eng.resolveType(r.eng.typesPkgs[g.PkgPath], g.T)
	key := r.eng.declHeap("ghost|"+g.PkgPath+"::"+g.Name, "gh_"+mangle(g.Name), r.sortOfSpecType(T))
	return SV{t: r.heapGet(env.cur, key), T: T}
}

func (r *Run) objectSV(env *SpecEnv, o types.Object) SV {
	switch ob := o.(type) {
	case *types.Const:
		return r.constSV(ob)
	case *types.Var:
		// package-level variable
		if sp := r.eng.prog.Package(ob.Pkg()); sp != nil {
			if g, ok := sp.Members[ob.Name()].(*ssa.Global); ok {
				return SV{t: r.heapGet(env.cur, r.eng.heapKeyGlobal(g)), T: ob.Type()}
			}
		}
		// variable of a dependency package (export data only): an opaque constant per variable
		n := "gv_" + mangle(ob.Pkg().Name()+"_"+ob.Name())
		r.eng.u.ufunc(n, nil, r.eng.u.sortOf(ob.Type()))
		return SV{t: Term{n, r.eng.u.sortOf(ob.Type())}, T: ob.Type()}
	case *types.TypeName:
		return SV{tyName: ob.Type()}
	case *types.Func:
		if sp := r.eng.prog.Package(ob.Pkg()); sp != nil {
			if f := sp.Func(ob.Name()); f != nil {
				return SV{fn: f}
			}
		}
		specFail("function %s not available", ob.Name())
	case *types.PkgName:
		return SV{pkg: ob.Imported()}
	}
	specFail("unsupported object %s", o)
	return SV{}
}

func (r *Run) constSV(c *types.Const) SV {
	v := c.Val()
	switch v.Kind() {
	case constant.Bool:
		if constant.BoolVal(v) {
			return SV{t: tTrue, T: c.Type()}
		}
		return SV{t: tFalse, T: c.Type()}
	case constant.Int:
		return SV{t: bigLit(v.ExactString()), T: c.Type()}
	case constant.String:
		return SV{t: r.eng.u.strLit(constant.StringVal(v)), T: c.Type()}
	}
	specFail("unsupported constant %s", c)
	return SV{}
}

func (r *Run) derefSV(env *SpecEnv, v SV) SV {
	if v.isAddr {
		return SV{t: r.readLoc(env.cur, v.loc), T: v.loc.typ}
	}
	p, ok := types.Unalias(v.T).Underlying().(*types.Pointer)
	if !ok {
		specFail("dereference of non-pointer type %s", v.T)
	}
	return SV{t: sel(r.heapGet(env.cur, r.eng.heapKeyObj(p.Elem())), v.t), T: p.Elem()}
}

// evalBase evaluates the left side of a selector: a package name is allowed there.
func (r *Run) evalBase(env *SpecEnv, e Expr) SV {
	if id, ok := e.(EIdent); ok {
		return r.evalIdent(env, id.Name)
	}
	return r.eval(env, e)
}

func (r *Run) evalSel(env *SpecEnv, x ESel) SV {
	base := r.evalBase(env, x.X)
	if base.pkg != nil {
		if g, ok := r.eng.ghosts[base.pkg.Path()+"::"+x.Sel]; ok {
			return r.ghostSV(env, g)
		}
		o := base.pkg.Scope().Lookup(x.Sel)
		if o == nil {
			specFail("package %s has no member %s", base.pkg.Name(), x.Sel)
		}
		return r.objectSV(env, o)
	}
	return r.selectField(env, base, x.Sel)
}

func (r *Run) selectField(env *SpecEnv, base SV, name string) SV {
	T := base.T
	if base.isAddr {
		T = types.NewPointer(base.loc.typ)
	}
	if T == nil {
		specFail("selector .%s on untyped value", name)
	}
	var pkg *types.Package
	if env.pkg != nil {
		pkg = env.pkg
	}
	obj, index, _ := types.LookupFieldOrMethod(T, true, pkg, name)
	if obj == nil && pkg != nil {
		// unexported field of another package: search with that package
		if n, ok := derefNamed(T); ok && n.Obj().Pkg() != nil {
			obj, index, _ = types.LookupFieldOrMethod(T, true, n.Obj().Pkg(), name)
		}
	}
	fld, ok := obj.(*types.Var)
	if !ok || !fld.IsField() {
		specFail("%s has no field %s", T, name)
	}
	cur := base
	for _, i := range index {
		// auto-deref
		if cur.isAddr {
			cur = SV{t: r.readLoc(env.cur, cur.loc), T: cur.loc.typ}
		} else if _, isPtr := types.Unalias(cur.T).Underlying().(*types.Pointer); isPtr {
			cur = r.derefSV(env, cur)
		}
		st := types.Unalias(cur.T).Underlying().(*types.Struct)
		cur = SV{t: r.eng.u.fieldSel(cur.T, i, cur.t), T: st.Field(i).Type()}
	}
	return cur
}

func derefNamed(T types.Type) (*types.Named, bool) {
	T = types.Unalias(T)
	if p, ok := T.Underlying().(*types.Pointer); ok {
		T = types.Unalias(p.Elem())
	}
	n, ok := T.(*types.Named)
	return n, ok
}

func (r *Run) evalIndex(env *SpecEnv, x EIndex) SV {
	base := r.eval(env, x.X)
	idx := r.eval(env, x.I)
	if base.T == nil {
		// logical array
		return SV{t: sel(base.t, idx.t)}
	}
	if la, ok := base.T.(*logicalArray); ok {
		return SV{t: sel(base.t, idx.t), T: la.elem}
	}
	switch bt := types.Unalias(base.T).Underlying().(type) {
	case *types.Slice:
		A := r.heapGet(env.cur, r.eng.heapKeyArr(bt.Elem()))
		return SV{t: sel(sel(A, app("Int", "sl_arr", base.t)), app("Int", "sl_ix", app("Int", "sl_off", base.t), idx.t)), T: bt.Elem()}
	case *types.Map:
		if idx.t.S == "nil" {
			idx = SV{t: r.eng.u.zeroOf(bt.Key()), T: bt.Key()}
		}
		has := and(not(eq(base.t, intLit(0))), r.mapHas(env.cur, bt, base.t, idx.t))
		return SV{t: ite(has, r.mapVal(env.cur, bt, base.t, idx.t), r.eng.u.zeroOf(bt.Elem())), T: bt.Elem()}
	case *types.Array:
		return SV{t: sel(base.t, idx.t), T: bt.Elem()}
	case *types.Pointer:
		if at, ok := bt.Elem().Underlying().(*types.Array); ok {
			d := r.derefSV(env, base)
			return SV{t: sel(d.t, idx.t), T: at.Elem()}
		}
	case *types.Basic:
		if bt.Info()&types.IsString != 0 {
			r.eng.u.ufunc("str_at", []string{"Str", "Int"}, "Int")
			return SV{t: app("Int", "str_at", base.t, idx.t), T: types.Typ[types.Uint8]}
		}
	}
	specFail("cannot index %s", base.T)
	return SV{}
}

func (r *Run) evalBinary(env *SpecEnv, x EBinary) SV {
	B := types.Typ[types.Bool]
	switch x.Op {
	case "&&":
		a := r.eval(env, x.X)
		b := r.eval(env, x.Y)
		return SV{t: and(a.t, b.t), T: B}
	case "||":
		a := r.eval(env, x.X)
		b := r.eval(env, x.Y)
		return SV{t: or(a.t, b.t), T: B}
	case "==>":
		a := r.eval(env, x.X)
		b := r.eval(env, x.Y)
		return SV{t: implies(a.t, b.t), T: B}
	case "<==>":
		a := r.eval(env, x.X)
		b := r.eval(env, x.Y)
		return SV{t: eq(a.t, b.t), T: B}
	case "in":
		k := r.eval(env, x.X)
		m := r.eval(env, x.Y)
		mt, ok := types.Unalias(m.T).Underlying().(*types.Map)
		if !ok {
			if m.T == nil && strings.HasPrefix(m.t.Sort, "(Array") {
				return SV{t: sel(m.t, k.t), T: B}
			}
			specFail("'in' needs a map, got %s", m.T)
		}
		return SV{t: and(not(eq(m.t, intLit(0))), r.mapHas(env.cur, mt, m.t, k.t)), T: B}
	}
	a := r.eval(env, x.X)
	b := r.eval(env, x.Y)
	// the address of an existing location compared with nil: never nil
	if x.Op == "==" || x.Op == "!=" {
		if (a.isAddr && a.t.S == "" && b.t.S == "nil") || (b.isAddr && b.t.S == "" && a.t.S == "nil") {
			if x.Op == "==" {
				return SV{t: tFalse, T: B}
			}
			return SV{t: tTrue, T: B}
		}
	}
	a, b = r.unifyNil(a, b)
	switch x.Op {
	case "==":
		r.checkSameSort(a, b, x)
		return SV{t: eq(a.t, b.t), T: B}
	case "!=":
		r.checkSameSort(a, b, x)
		return SV{t: not(eq(a.t, b.t)), T: B}
	case "<", "<=", ">", ">=":
		if a.t.Sort == "Str" {
			r.eng.u.ufunc("str_lt", []string{"Str", "Str"}, "Bool")
			switch x.Op {
			case "<":
				return SV{t: app("Bool", "str_lt", a.t, b.t), T: B}
			case ">":
				return SV{t: app("Bool", "str_lt", b.t, a.t), T: B}
			case "<=":
				return SV{t: not(app("Bool", "str_lt", b.t, a.t)), T: B}
			default:
				return SV{t: not(app("Bool", "str_lt", a.t, b.t)), T: B}
			}
		}
		if a.t.Sort != "Int" && a.t.Sort != "Real" {
			specFail("comparison %s on sort %s in %s", x.Op, a.t.Sort, exprString(x))
		}
		return SV{t: app("Bool", x.Op, a.t, b.t), T: B}
	case "+", "-", "*":
		T := a.T
		if isUntyped(T) {
			T = b.T
		}
		if a.t.Sort == "Str" && x.Op == "+" {
			return SV{t: r.eng.u.strConcat(a.t, b.t), T: T}
		}
		return SV{t: app(a.t.Sort, x.Op, a.t, b.t), T: T}
	case "/":
		T := a.T
		if isUntyped(T) {
			T = b.T
		}
		return SV{t: app("Int", "go_div", a.t, b.t), T: T}
	case "%":
		T := a.T
		if isUntyped(T) {
			T = b.T
		}
		return SV{t: app("Int", "go_rem", a.t, b.t), T: T}
	}
	specFail("unsupported operator %s", x.Op)
	return SV{}
}

func (r *Run) checkSameSort(a, b SV, x Expr) {
	if a.t.Sort != b.t.Sort {
		specFail("sort mismatch %s vs %s in %s", a.t.Sort, b.t.Sort, exprString(x))
	}
}

func (r *Run) evalQuant(env *SpecEnv, x EQuant) SV {
	n := env
	var decls []string
	for _, v := range x.Vars {
		T := r.eng.resolveType(env.pkg, v.T)
		s := r.sortOfSpecType(T)
		r.qctr++
		nm := fmt.Sprintf("%s_q%d", v.Name, r.qctr)
		decls = append(decls, fmt.Sprintf("(%s %s)", nm, s))
		n = n.with(v.Name, SV{t: Term{nm, s}, T: T})
	}
	body := r.evalNoDef(n, x.Body)
	q := "exists"
	if x.Forall {
		q = "forall"
	}
	bs := body.t.S
	if len(x.Patterns) > 0 {
		var ps []string
		for _, pat := range x.Patterns {
			var ts []string
			for _, pe := range pat {
				ts = append(ts, r.evalNoDef(n, pe).t.S)
			}
			ps = append(ps, ":pattern ("+strings.Join(ts, " ")+")")
		}
		bs = "(! " + bs + " " + strings.Join(ps, " ") + ")"
	}
	return SV{t: Term{fmt.Sprintf("(%s (%s) %s)", q, strings.Join(decls, " "), bs), "Bool"}, T: types.Typ[types.Bool]}
}

// evalNoDef evaluates under binders: definitions (define-fun) must not capture bound variables.
func (r *Run) evalNoDef(env *SpecEnv, e Expr) SV {
	r.noDef++
	defer func() { r.noDef-- }()
	return r.eval(env, e)
}

func (r *Run) evalCall(env *SpecEnv, x ECall) SV {
	u := r.eng.u
	// method-style calls on values: t.IsZero(), ts.Before(u) ...
	if sel, ok := x.Fun.(ESel); ok {
		base := r.evalBase(env, sel.X)
		if base.pkg != nil {
			// pkg.Func(args) or pkg.Type(x)
			o := base.pkg.Scope().Lookup(sel.Sel)
			if o == nil {
				if pf, ok := r.eng.pures[base.pkg.Path()+"::"+sel.Sel]; ok {
					return r.callPure(env, pf, x.Args)
				}
				specFail("package %s has no member %s", base.pkg.Name(), sel.Sel)
			}
			switch ob := o.(type) {
			case *types.TypeName:
				return r.specConvert(env, ob.Type(), x.Args)
			case *types.Func:
				return r.specNativeCall(env, ob, nil, x.Args)
			}
			specFail("cannot call %s.%s", base.pkg.Name(), sel.Sel)
		}
		// method on value
		if base.T != nil {
			obj, _, _ := types.LookupFieldOrMethod(base.T, true, env.pkg, sel.Sel)
			if obj == nil {
				if n, ok := derefNamed(base.T); ok && n.Obj().Pkg() != nil {
					obj, _, _ = types.LookupFieldOrMethod(base.T, true, n.Obj().Pkg(), sel.Sel)
				}
			}
			if f, ok := obj.(*types.Func); ok {
				return r.specNativeCall(env, f, &base, x.Args)
			}
		}
		specFail("cannot resolve call %s", exprString(x))
	}
	id, ok := x.Fun.(EIdent)
	if !ok {
		specFail("unsupported call %s", exprString(x))
	}
	switch id.Name {
	case "len":
		v := r.eval(env, x.Args[0])
		switch vt := types.Unalias(v.T).Underlying().(type) {
		case *types.Slice:
			return SV{t: app("Int", "sl_len", v.t), T: types.Typ[types.Int]}
		case *types.Map:
			return SV{t: ite(eq(v.t, intLit(0)), intLit(0), r.mapLen(env.cur, vt, v.t)), T: types.Typ[types.Int]}
		case *types.Basic:
			return SV{t: app("Int", "str_len", v.t), T: types.Typ[types.Int]}
		case *types.Array:
			return SV{t: intLit(vt.Len()), T: types.Typ[types.Int]}
		}
		specFail("len of %s", v.T)
	case "cap":
		v := r.eval(env, x.Args[0])
		return SV{t: app("Int", "sl_cap", v.t), T: types.Typ[types.Int]}
	case "min", "max":
		a := r.eval(env, x.Args[0])
		b := r.eval(env, x.Args[1])
		op := "<="
		if id.Name == "max" {
			op = ">="
		}
		T := a.T
		if isUntyped(T) {
			T = b.T
		}
		return SV{t: ite(app("Bool", op, a.t, b.t), a.t, b.t), T: T}
	case "loopentry":
		if env.loopPre == nil {
			specFail("loopentry() outside loop invariant")
		}
		n := *env
		n.cur = env.loopPre
		return r.eval(&n, x.Args[0])
	case "visited":
		// visited(k): key k of the map ranged over by the current loop has been visited
		if env.frame == nil || env.curIter() == "" {
			specFail("visited() needs a range-over-map loop")
		}
		k := r.eval(env, x.Args[0])
		return SV{t: sel(r.heapGet(env.cur, env.curIter()), k.t), T: types.Typ[types.Bool]}
	case "store":
		a := r.eval(env, x.Args[0])
		i := r.eval(env, x.Args[1])
		v := r.eval(env, x.Args[2])
		if la, ok := a.T.(*logicalArray); ok {
			if v.t.S == "nil" {
				v = SV{t: r.eng.u.zeroOf(la.elem), T: la.elem}
			}
			if i.t.S == "nil" {
				i = SV{t: r.eng.u.zeroOf(la.key), T: la.key}
			}
		}
		return SV{t: store(a.t, i.t, v.t), T: a.T}
	case "chanlen", "chanrecvd", "chansent", "chanat":
		// ghost FIFO view of a channel (see chan.go)
		ch := r.eval(env, x.Args[0])
		et := chanElem(ch.T)
		bk, hk, tk := r.eng.chanKeys(et)
		head, tail := sel(r.heapGet(env.cur, hk), ch.t), sel(r.heapGet(env.cur, tk), ch.t)
		switch id.Name {
		case "chanlen":
			return SV{t: app("Int", "-", tail, head), T: types.Typ[types.Int]}
		case "chanrecvd":
			return SV{t: head, T: types.Typ[types.Int]}
		case "chansent":
			return SV{t: tail, T: types.Typ[types.Int]}
		}
		i := r.eval(env, x.Args[1])
		return SV{t: sel(sel(r.heapGet(env.cur, bk), ch.t), i.t), T: et}
	case "itoa":
		// itoa(n): decimal rendering (strconv.Itoa / FormatInt base 10), injective
		v := r.eval(env, x.Args[0])
		return SV{t: r.itoa(v.t), T: types.Typ[types.String]}
	case "atoi":
		// atoi(s): inverse of itoa (strconv.Atoi on success)
		v := r.eval(env, x.Args[0])
		r.itoa(intLit(0))
		return SV{t: app("Int", "str_atoi", v.t), T: types.Typ[types.Int]}
	case "sprintf":
		// sprintf(format, args...): the same uninterpreted function the executor uses for fmt.Sprintf
		f := r.eval(env, x.Args[0])
		ts := []Term{f.t}
		sorts := []string{"Str"}
		for _, a := range x.Args[1:] {
			v := r.eval(env, a)
			if isUntyped(v.T) {
				specFail("sprintf() arguments must be typed")
			}
			ts = append(ts, r.makeIface(v.T, v.t))
			sorts = append(sorts, "Iface")
		}
		n := fmt.Sprintf("sprintf_%d", len(x.Args)-1)
		u.ufunc(n, sorts, "Str")
		return SV{t: app("Str", n, ts...), T: types.Typ[types.String]}
	case "addr":
		// addr(p.f.g): the identity of an interior location (see locAsTerm)
		loc := r.evalLoc(env, x.Args[0])
		return SV{t: r.locAsTerm(loc), T: types.NewPointer(loc.typ), loc: loc, isAddr: true}
	case "iface":
		// iface(x): x converted to an interface value (boxed with its static type)
		v := r.eval(env, x.Args[0])
		if isUntyped(v.T) {
			specFail("iface() needs a typed value")
		}
		return SV{t: r.makeIface(v.T, v.t), T: types.NewInterfaceType(nil, nil)}
	case "zero":
		T := r.specTypeArg(env, x.Args[0])
		return SV{t: u.zeroOf(T), T: T}
	case "typeis":
		// typeis(x, T): dynamic type of interface value x is T
		v := r.eval(env, x.Args[0])
		T := r.specTypeArg(env, x.Args[1])
		return SV{t: eq(app("Int", "if_tag", v.t), u.typeID(T)), T: types.Typ[types.Bool]}
	case "unbox":
		v := r.eval(env, x.Args[0])
		T := r.specTypeArg(env, x.Args[1])
		return SV{t: r.unboxIface(T, v.t), T: T}
	case "samearray":
		// samearray(a, b): the two slices share their backing array
		a := r.eval(env, x.Args[0])
		b := r.eval(env, x.Args[1])
		return SV{t: eq(app("Int", "sl_arr", a.t), app("Int", "sl_arr", b.t)), T: types.Typ[types.Bool]}
	case "preexisting":
		// preexisting(p): p is nil or was allocated before the function under verification was entered (objects held
		// by informer caches and stores): the entry-state well-formedness of memory applies to it
		v := r.eval(env, x.Args[0])
		r.heapGet(env.cur, r.eng.heapKeyAlloc())
		return SV{t: app("Bool", "<=", v.t, Term{"wm_0", "Int"}), T: types.Typ[types.Bool]}
	case "allocated":
		v := r.eval(env, x.Args[0])
		return SV{t: r.allocated(env.cur, v.t), T: types.Typ[types.Bool]}
	case "fresh":
		// fresh(p): p was allocated during the call (not allocated in the old state)
		v := r.eval(env, x.Args[0])
		wmOld := r.heapGet(env.old, r.eng.heapKeyAlloc())
		vt := v.t
		if vt.Sort == "Slice" {
			vt = app("Int", "sl_arr", vt)
		}
		return SV{t: app("Bool", ">", vt, wmOld), T: types.Typ[types.Bool]}
	}
	if pn, ok := pureNatives[id.Name]; ok {
		var svs []SV
		for _, a := range x.Args {
			svs = append(svs, r.eval(env, a))
		}
		return pn(r, env, svs)
	}
	// type conversion with a basic / local type
	if T, ok := basicTypes[id.Name]; ok {
		return r.specConvert(env, T, x.Args)
	}
	if id.Name == "Int" {
		return r.eval(env, x.Args[0])
	}
	// a function-valued parameter applied in a specification: its pure model when the function is known at this call site,
	// otherwise an uninterpreted application (function-valued parameters are assumed pure)
	if sv, ok := env.vars[id.Name]; ok && sv.T != nil {
		if sig, ok := types.Unalias(sv.T).Underlying().(*types.Signature); ok {
			var svs []SV
			for _, a := range x.Args {
				svs = append(svs, r.eval(env, a))
			}
			if sv.fn != nil {
				if f, ok := sv.fn.Object().(*types.Func); ok && sv.clo == nil {
					return r.specNativeCallSV(env, f, svs)
				}
				// a closure passed as an argument: an (assumed pure) function of its identity and the arguments, as for
				// an unknown function value; sound as long as what the closure reads is not modified during the call
				r.noteAssume("a closure passed as a function-valued argument is applied in specifications as a pure function of its arguments")
			}
			if sig.Results().Len() != 1 {
				specFail("function value %s: only single-result functions can be applied in specifications", id.Name)
			}
			var ts []Term
			for _, a := range svs {
				ts = append(ts, a.t)
			}
			return SV{t: r.fnApp(sv.t, ts, sig), T: sig.Results().At(0).Type()}
		}
	}
	// pure spec functions
	if pf := r.eng.lookupPure(env.pkg, id.Name); pf != nil {
		return r.callPure(env, pf, x.Args)
	}
	if env.pkg != nil {
		if o := env.pkg.Scope().Lookup(id.Name); o != nil {
			switch ob := o.(type) {
			case *types.TypeName:
				return r.specConvert(env, ob.Type(), x.Args)
			case *types.Func:
				return r.specNativeCall(env, ob, nil, x.Args)
			}
		}
	}
	specFail("unknown function %s", id.Name)
	return SV{}
}

func (env *SpecEnv) curIter() string { return env.iterKey }

func (r *Run) specTypeArg(env *SpecEnv, e Expr) types.Type {
	switch x := e.(type) {
	case EIdent:
		if _, shadowed := env.vars[x.Name]; !shadowed {
			if t, ok := basicTypes[x.Name]; ok {
				return t
			}
		}
		sv := r.evalIdent(env, x.Name)
		if sv.tyName != nil {
			return sv.tyName
		}
	case ESel:
		sv := r.evalSel(env, x)
		if sv.tyName != nil {
			return sv.tyName
		}
	case EUnary:
		if x.Op == "*" {
			return types.NewPointer(r.specTypeArg(env, x.X))
		}
	case EType:
		return r.eng.resolveType(env.pkg, x.T)
	}
	specFail("expected a type, got %s", exprString(e))
	return nil
}

func (r *Run) specConvert(env *SpecEnv, T types.Type, args []Expr) SV {
	if len(args) != 1 {
		specFail("conversion needs one argument")
	}
	v := r.eval(env, args[0])
	ts := r.eng.u.sortOf(T)
	if v.t.S == "nil" {
		return SV{t: r.eng.u.zeroOf(T), T: T}
	}
	if v.t.Sort != ts {
		if v.t.Sort == "Int" && ts == "Real" {
			return SV{t: app("Real", "to_real", v.t), T: T}
		}
		specFail("conversion of sort %s to %s", v.t.Sort, T)
	}
	return SV{t: v.t, T: T}
}

// specNativeCall: calls in specs to Go functions that have a pure native model or a `pure` twin of the same
// (receiver-qualified) name in their package's contract file.
// fnApp: application of an unknown (assumed pure) function value: an uninterpreted function of the value and the arguments
func (r *Run) fnApp(f Term, args []Term, sig *types.Signature) Term {
	u := r.eng.u
	sorts := []string{"Int"}
	name := "fnapp"
	ts := []Term{f}
	for _, a := range args {
		sorts = append(sorts, a.Sort)
		name += "_" + mangle(a.Sort)
		ts = append(ts, a)
	}
	ret := u.sortOf(sig.Results().At(0).Type())
	name += "__" + mangle(ret)
	u.ufunc(name, sorts, ret)
	r.noteAssume("function-valued parameters called with an unknown target are pure: their result depends only on the function value and the arguments")
	return app(ret, name, ts...)
}

func (r *Run) specNativeCall(env *SpecEnv, f *types.Func, recv *SV, args []Expr) SV {
	var svs []SV
	if recv != nil {
		svs = append(svs, *recv)
	}
	for _, a := range args {
		svs = append(svs, r.eval(env, a))
	}
	return r.specNativeCallSVRecv(env, f, recv, svs)
}

func (r *Run) specNativeCallSV(env *SpecEnv, f *types.Func, svs []SV) SV {
	return r.specNativeCallSVRecv(env, f, nil, svs)
}

func (r *Run) specNativeCallSVRecv(env *SpecEnv, f *types.Func, recv *SV, svs []SV) SV {
	full := f.FullName()
	if pn, ok := pureNatives[full]; ok {
		return pn(r, env, svs)
	}
	if f.Pkg() != nil {
		key := f.Name()
		sig := f.Type().(*types.Signature)
		if rv := sig.Recv(); rv != nil {
			if n, ok := derefNamed(rv.Type()); ok {
				key = n.Obj().Name() + "." + f.Name()
			}
			// value receiver called through a pointer: dereference
			if recv != nil {
				if _, isPtr := types.Unalias(rv.Type()).Underlying().(*types.Pointer); !isPtr {
					if _, argPtr := types.Unalias(svs[0].T).Underlying().(*types.Pointer); argPtr && !svs[0].isAddr {
						svs[0] = r.derefSV(env, svs[0])
					} else if svs[0].isAddr {
						svs[0] = SV{t: r.readLoc(env.cur, svs[0].loc), T: svs[0].loc.typ}
					}
				}
			}
		}
		if pf, ok := r.eng.pures[f.Pkg().Path()+"::"+key]; ok {
			return r.applyPure(env, pf, svs)
		}
		// definitional extern: a single `ensures result == E` without modifies can be used as a pure function
		if fc, ok := r.eng.contracts[full]; ok {
			if sv, ok := r.applyDefinitional(env, fc, sig, svs); ok {
				return sv
			}
		}
	}
	specFail("function %s is not callable in specifications (no pure model)", full)
	return SV{}
}

// applyDefinitional: evaluates `E` of a contract whose only clause is `ensures result == E`.
func (r *Run) applyDefinitional(env *SpecEnv, fc *FuncContract, sig *types.Signature, args []SV) (SV, bool) {
	if len(fc.Requires) != 0 || len(fc.Modifies) != 0 || len(fc.Ensures) != 1 || sig.Results().Len() != 1 {
		return SV{}, false
	}
	b, ok := fc.Ensures[0].E.(EBinary)
	if !ok || b.Op != "==" {
		return SV{}, false
	}
	id, ok := b.X.(EIdent)
	if !ok || id.Name != "result" {
		return SV{}, false
	}
	names := paramNames(sig, fc)
	if len(names) != len(args) {
		return SV{}, false
	}
	n := &SpecEnv{run: r, pkg: r.eng.specPkgFor(fc, nil), cur: env.cur, old: env.old, vars: map[string]SV{}, bound: env.bound}
	if n.pkg == nil {
		n.pkg = env.pkg
	}
	for i, nm := range names {
		n.vars[nm] = args[i]
	}
	sv := r.eval(n, b.Y)
	if isUntyped(sv.T) {
		sv.T = sig.Results().At(0).Type()
	}
	return sv, true
}

// ---------------------------------------------------------------------------
// pure spec functions: emitted as define-fun / define-fun-rec with the heaps they read as explicit parameters.

func (e *Engine) lookupPure(pkg *types.Package, name string) *PureFunc {
	if pkg != nil {
		if pf, ok := e.pures[pkg.Path()+"::"+name]; ok {
			return pf
		}
	}
	if pf, ok := e.pures["::"+name]; ok {
		return pf
	}
	return nil
}

func (r *Run) callPure(env *SpecEnv, pf *PureFunc, args []Expr) SV {
	var svs []SV
	for _, a := range args {
		svs = append(svs, r.eval(env, a))
	}
	return r.applyPure(env, pf, svs)
}

type pureInst struct {
	name     string
	heapKeys []string
	retSort  string
	retT     types.Type
}

func (r *Run) applyPure(env *SpecEnv, pf *PureFunc, args []SV) SV {
	if len(args) != len(pf.Params) {
		specFail("pure %s: %d args for %d params", pf.Name, len(args), len(pf.Params))
	}
	inst := r.pureInstance(pf)
	var ts []Term
	pkg := r.eng.typesPkgs[pf.PkgPath]
	for i, a := range args {
		if a.t.S == "nil" {
			a.t = r.eng.u.zeroOf(r.eng.resolveType(pkg, pf.Params[i].T))
		}
		ts = append(ts, a.t)
	}
	for _, k := range inst.heapKeys {
		ts = append(ts, r.heapGet(env.cur, k))
	}
	if len(ts) == 0 {
		return SV{t: Term{inst.name, inst.retSort}, T: inst.retT}
	}
	return SV{t: app(inst.retSort, inst.name, ts...), T: inst.retT}
}

// pureInstance declares the pure function in this run's script (once) and
// returns its SMT name and the heaps it depends on.
func (r *Run) pureInstance(pf *PureFunc) *pureInst {
	key := pf.PkgPath + "::" + pf.Name
	if pi, ok := r.pureInsts[key]; ok {
		if pi == nil {
			specFail("pure function %s: recursion must be direct (mutual recursion unsupported)", pf.Name)
		}
		return pi
	}
	pkg := r.eng.typesPkgs[pf.PkgPath]
	retT := r.eng.resolveType(pkg, pf.Ret)
	retSort := r.sortOfSpecType(retT)
	name := "pure_" + mangle(pf.Name)
	if pf.Body == nil {
		var ss []string
		for _, p := range pf.Params {
			ss = append(ss, r.sortOfSpecType(r.eng.resolveType(pkg, p.T)))
		}
		r.emit(fmt.Sprintf("(declare-fun %s (%s) %s)", name, strings.Join(ss, " "), retSort))
		pi := &pureInst{name: name, retSort: retSort, retT: retT}
		r.pureInsts[key] = pi
		r.emitAxiomsFor(pf)
		return pi
	}
	// Evaluate the body in a symbolic state whose heaps are formal parameters.
	// Pass 1 discovers which heaps are read; recursive calls need the heap list, so iterate to a fixpoint (2 passes suffice for direct recursion).
	var heapKeys []string
	for pass := 0; pass < 4; pass++ {
		st := &State{pc: tTrue, locals: map[*ssa.Alloc]Term{}, heaps: map[string]Term{}}
		tracker := &heapTracker{used: map[string]bool{}}
		for _, k := range heapKeys {
			st.heaps[k] = Term{"h_" + r.eng.heapDecls[k].name, r.eng.heapDecls[k].sort}
		}
		env := &SpecEnv{run: r, pkg: pkg, cur: st, old: nil, vars: map[string]SV{}, inPure: true}
		var decls []string
		for _, p := range pf.Params {
			T := r.eng.resolveType(pkg, p.T)
			s := r.sortOfSpecType(T)
			pn := "p_" + p.Name
			decls = append(decls, fmt.Sprintf("(%s %s)", pn, s))
			env.vars[p.Name] = SV{t: Term{pn, s}, T: T}
		}
		// provisional instance for recursion
		r.pureInsts[key] = &pureInst{name: name, heapKeys: heapKeys, retSort: retSort, retT: retT}
		prevTracker, prevTrackState := r.tracker, r.trackState
		r.tracker = tracker
		r.trackState = st
		savedLines := len(r.lines)
		body := r.evalNoDef(env, pf.Body)
		r.tracker = prevTracker
		r.trackState = prevTrackState
		if len(r.lines) != savedLines {
			// declarations emitted while evaluating (e.g. nested pure functions) are fine; they precede this definition
		}
		newKeys := append([]string{}, heapKeys...)
		for _, k := range sortedKeys(tracker.used) {
			found := false
			for _, h := range heapKeys {
				if h == k {
					found = true
				}
			}
			if !found {
				newKeys = append(newKeys, k)
			}
		}
		if len(newKeys) == len(heapKeys) {
			for _, k := range heapKeys {
				decls = append(decls, fmt.Sprintf("(h_%s %s)", r.eng.heapDecls[k].name, r.eng.heapDecls[k].sort))
			}
			bt := body.t
			if bt.S == "nil" {
				bt = r.eng.u.zeroOf(retT)
			}
			if bt.Sort != retSort {
				specFail("pure %s: body has sort %s, declared %s", pf.Name, bt.Sort, retSort)
			}
			kw := "define-fun"
			if pf.Recursive {
				kw = "define-fun-rec"
			}
			r.emit(fmt.Sprintf("(%s %s (%s) %s %s)", kw, name, strings.Join(decls, " "), retSort, bt.S))
			pi := &pureInst{name: name, heapKeys: heapKeys, retSort: retSort, retT: retT}
			r.pureInsts[key] = pi
			if len(heapKeys) == 0 {
				// (assumed) axioms about a defined, heap-independent spec function, e.g. injectivity of a formatted key
				r.emitAxiomsFor(pf)
			}
			return pi
		}
		heapKeys = newKeys
	}
	specFail("pure %s: heap dependencies did not stabilise", pf.Name)
	return nil
}

type heapTracker struct{ used map[string]bool }

// ---------------------------------------------------------------------------
// modifies

func (r *Run) havocModifies(env *SpecEnv, pre, st *State, m Expr, src string) {
	defer func() {
		if x := recover(); x != nil {
			if se, ok := x.(specErr); ok {
				panic(execErr{msg: fmt.Sprintf("modifies %q: %s", src, se.msg)})
			}
			panic(x)
		}
	}()
	penv := env.inState(pre)
	{
		before := map[string]string{}
		for k, t := range st.heaps {
			before[k] = t.S
		}
		defer func() {
			var changed []string
			for k, t := range st.heaps {
				if before[k] != t.S {
					changed = append(changed, k)
				}
			}
			sort.Strings(changed)
			for _, k := range changed {
				// during a loop probe: whatever a callee may modify is an unknown (non-fresh) target
				r.noteWrite(k, "?")
				r.assumeHeapWF(st, k)
			}
		}()
	}
	switch x := m.(type) {
	case EUnary:
		if x.Op == "*" {
			v := r.eval(penv, x.X)
			if v.isAddr {
				r.writeLoc(st, v.loc, r.havoc("hv", r.eng.u.sortOf(v.loc.typ)))
				return
			}
			T := deref(v.T)
			key := r.eng.heapKeyObj(T)
			nv := r.havoc("hv", r.eng.u.sortOf(T))
			r.heapSet(st, key, ite(eq(v.t, intLit(0)), r.heapGet(st, key), store(r.heapGet(st, key), v.t, nv)))
			return
		}
	case ECall:
		if id, ok := x.Fun.(EIdent); ok {
			switch id.Name {
			case "heap": // heap(T): every object of type T
				T := r.specTypeArg(penv, x.Args[0])
				key := r.eng.heapKeyObj(T)
				st.heaps[key] = r.havoc(r.eng.heapDecls[key].name, r.eng.heapDecls[key].sort)
				return
			case "elems": // elems(s): the elements of slice s
				v := r.eval(penv, x.Args[0])
				et := types.Unalias(v.T).Underlying().(*types.Slice).Elem()
				key := r.eng.heapKeyArr(et)
				A := r.heapGet(st, key)
				nv := r.havoc("hv", arrayValSort(A.Sort))
				r.heapSet(st, key, store(A, app("Int", "sl_arr", v.t), nv))
				return
			case "mapof": // mapof(m): contents of map m
				v := r.eval(penv, x.Args[0])
				mt := types.Unalias(v.T).Underlying().(*types.Map)
				for _, key := range []string{r.eng.heapKeyMapHas(mt), r.eng.heapKeyMapVal(mt), r.eng.heapKeyMapLen(mt)} {
					H := r.heapGet(st, key)
					nv := r.havoc("hv", arrayValSort(H.Sort))
					r.heapSet(st, key, store(H, v.t, nv))
				}
				nl := r.mapLen(st, mt, v.t)
				r.assume(st, app("Bool", ">=", nl, intLit(0)))
				return
			case "maps": // maps(K,V): all maps of that type
				K := r.specTypeArg(penv, x.Args[0])
				V := r.specTypeArg(penv, x.Args[1])
				mt := types.NewMap(K, V)
				for _, key := range []string{r.eng.heapKeyMapHas(mt), r.eng.heapKeyMapVal(mt), r.eng.heapKeyMapLen(mt)} {
					st.heaps[key] = r.havoc(r.eng.heapDecls[key].name, r.eng.heapDecls[key].sort)
				}
				return
			case "arrays": // arrays(T): all slice backing arrays of element type T
				T := r.specTypeArg(penv, x.Args[0])
				key := r.eng.heapKeyArr(T)
				st.heaps[key] = r.havoc(r.eng.heapDecls[key].name, r.eng.heapDecls[key].sort)
				return
			case "chanof": // chanof(ch): the ghost FIFO state of channels of ch's element type
				v := r.eval(penv, x.Args[0])
				bk, hk, tk := r.eng.chanKeys(chanElem(v.T))
				for _, key := range []string{bk, hk, tk} {
					st.heaps[key] = r.havoc(r.eng.heapDecls[key].name, r.eng.heapDecls[key].sort)
				}
				return
			}
		}
	case EIdent:
		// ghost variable or package-level variable
		if env.pkg != nil {
			if g, ok := r.eng.ghosts[env.pkg.Path()+"::"+x.Name]; ok {
				sv := r.ghostSV(penv, g)
				key := "ghost|" + g.PkgPath + "::" + g.Name
				st.heaps[key] = r.havoc("gh_"+mangle(g.Name), sv.t.Sort)
				return
			}
			if o := env.pkg.Scope().Lookup(x.Name); o != nil {
				if v, ok := o.(*types.Var); ok {
					if sp := r.eng.prog.Package(v.Pkg()); sp != nil {
						if g, ok := sp.Members[v.Name()].(*ssa.Global); ok {
							key := r.eng.heapKeyGlobal(g)
							st.heaps[key] = r.havoc(r.eng.heapDecls[key].name, r.eng.heapDecls[key].sort)
							return
						}
					}
				}
			}
		}
		if g, ok := r.eng.ghosts["::"+x.Name]; ok {
			sv := r.ghostSV(penv, g)
			st.heaps["ghost|::"+g.Name] = r.havoc("gh_"+mangle(g.Name), sv.t.Sort)
			return
		}
	case ESel:
		if g := r.qualifiedGhost(penv, x); g != nil {
			sv := r.ghostSV(penv, g)
			st.heaps["ghost|"+g.PkgPath+"::"+g.Name] = r.havoc("gh_"+mangle(g.Name), sv.t.Sort)
			return
		}
		// p.f.g : a field path inside the object p points to
		loc := r.evalLoc(penv, x)
		r.writeLoc(st, loc, r.havoc("hv", r.eng.u.sortOf(loc.typ)))
		return
	}
	specFail("unsupported modifies item")
}

// evalLoc evaluates a field-path expression to a location.
func (r *Run) evalLoc(env *SpecEnv, e Expr) *Loc {
	switch x := e.(type) {
	case ESel:
		var baseLoc *Loc
		var baseT types.Type
		switch x.X.(type) {
		case ESel:
			inner := r.evalLoc(env, x.X)
			baseLoc, baseT = inner, inner.typ
			if p, ok := types.Unalias(baseT).Underlying().(*types.Pointer); ok {
				ref := r.readLoc(env.cur, inner)
				baseLoc = &Loc{kind: rootHeap, T: p.Elem(), ref: ref, typ: p.Elem()}
				baseT = p.Elem()
			}
		default:
			v := r.eval(env, x.X)
			if v.isAddr {
				baseLoc, baseT = v.loc, v.loc.typ
			} else {
				p, ok := types.Unalias(v.T).Underlying().(*types.Pointer)
				if !ok {
					specFail("modifies path must start at a pointer, got %s", v.T)
				}
				baseLoc = &Loc{kind: rootHeap, T: p.Elem(), ref: v.t, typ: p.Elem()}
				baseT = p.Elem()
			}
		}
		obj, index, _ := types.LookupFieldOrMethod(baseT, true, env.pkg, x.Sel)
		if obj == nil {
			if n, ok := derefNamed(baseT); ok && n.Obj().Pkg() != nil {
				obj, index, _ = types.LookupFieldOrMethod(baseT, true, n.Obj().Pkg(), x.Sel)
			}
		}
		if _, ok := obj.(*types.Var); !ok {
			specFail("%s has no field %s", baseT, x.Sel)
		}
		loc := baseLoc
		T := baseT
		for _, i := range index {
			if p, ok := types.Unalias(T).Underlying().(*types.Pointer); ok {
				ref := r.readLoc(env.cur, loc)
				loc = &Loc{kind: rootHeap, T: p.Elem(), ref: ref, typ: p.Elem()}
				T = p.Elem()
			}
			st := types.Unalias(T).Underlying().(*types.Struct)
			loc = loc.extend(PathEl{field: i, contT: T}, st.Field(i).Type())
			T = st.Field(i).Type()
		}
		return loc
	}
	specFail("not a location: %s", exprString(e))
	return nil
}

// emitAxioms asserts the (assumed) axioms that constrain an uninterpreted spec function,
// the first time that function is used in a run.
func (r *Run) emitAxiomsFor(pf *PureFunc) {
	for _, ax := range r.eng.axioms {
		if !mentionsCall(ax.E, pf.Name) {
			continue
		}
		if ax.PkgPath != pf.PkgPath {
			// a package's axiom about a library spec function (only when the package has no function of that name)
			if _, own := r.eng.pures[ax.PkgPath+"::"+pf.Name]; own || pf.PkgPath != "" {
				continue
			}
			if r.top == nil || r.top.Pkg == nil || r.top.Pkg.Pkg.Path() != ax.PkgPath {
				continue // only in runs of that package's own functions
			}
		}
		key := ax.PkgPath + "::" + ax.Name + "::" + ax.Src
		if r.axiomsDone[key] {
			continue
		}
		if r.axiomsDone == nil {
			r.axiomsDone = map[string]bool{}
		}
		r.axiomsDone[key] = true
		st := &State{pc: tTrue, locals: map[*ssa.Alloc]Term{}, heaps: map[string]Term{}}
		env := &SpecEnv{run: r, pkg: r.eng.typesPkgs[ax.PkgPath], cur: st, old: st, vars: map[string]SV{}}
		sv := r.evalNoDef(env, ax.E)
		r.emit(fmt.Sprintf("(assert %s) ; axiom %s", sv.t.S, ax.Name))
		r.axiomsUsed = append(r.axiomsUsed, ax.PkgPath+": "+ax.Name+": "+ax.Src)
	}
}

// qualifiedGhost: pkg.ghostVar
func (r *Run) qualifiedGhost(env *SpecEnv, x ESel) *GhostVar {
	id, ok := x.X.(EIdent)
	if !ok {
		return nil
	}
	if _, bound := env.bound[id.Name]; bound {
		return nil
	}
	if _, isVar := env.vars[id.Name]; isVar {
		return nil
	}
	p := r.eng.importedPkg(env.pkg, id.Name)
	if p == nil {
		return nil
	}
	return r.eng.ghosts[p.Path()+"::"+x.Sel]
}
