package main

// Contract expression language: lexer + Pratt parser.

import (
	"fmt"
	"strings"
	"unicode"
)

type Expr interface{}

type (
	EIdent struct{ Name string }
	EInt   struct{ V string }
	EStr   struct{ V string }
	EBool  struct{ V bool }
	ENil   struct{}
	EUnary struct {
		Op string
		X  Expr
	}
	EBinary struct {
		Op   string
		X, Y Expr
	}
	ECond struct{ C, A, B Expr }
	ECall struct {
		Fun  Expr
		Args []Expr
	}
	ESel struct {
		X   Expr
		Sel string
	}
	EIndex struct{ X, I Expr }
	ESlice struct{ X, Lo, Hi Expr }
	EQuant struct {
		Forall   bool
		Vars     []QVar
		Body     Expr
		Patterns [][]Expr // optional triggers: forall i int :: {t1, t2} {t3} body
	}
	EOld struct{ X Expr }
	ELet struct {
		Name string
		Val  Expr
		Body Expr
	}
	ETypeLit struct{ T TypeExpr } // a type used as expression (conversion callee)
)

type QVar struct {
	Name string
	T    TypeExpr
}

// TypeExpr is a syntactic type.
type TypeExpr struct {
	Kind string // "name", "ptr", "slice", "map"
	Pkg  string
	Name string
	Elem *TypeExpr
	Key  *TypeExpr
}

// EType: a type written in expression position (type arguments of typeis/unbox/zero)
type EType struct{ T TypeExpr }

func (t TypeExpr) String() string {
	switch t.Kind {
	case "ptr":
		return "*" + t.Elem.String()
	case "slice":
		return "[]" + t.Elem.String()
	case "map":
		return "map[" + t.Key.String() + "]" + t.Elem.String()
	}
	if t.Pkg != "" {
		return t.Pkg + "." + t.Name
	}
	return t.Name
}

type tok struct {
	kind string // "id", "int", "str", "op", "eof"
	s    string
	pos  int
}

func lex(src string) ([]tok, error) {
	var toks []tok
	i := 0
	rs := []rune(src)
	ops := []string{"<==>", "==>", "::", "==", "!=", "<=", ">=", "&&", "||", "(", ")", "[", "]", "{", "}", ",", ".", "<", ">", "+", "-", "*", "/", "%", "!", "?", ":", "=", "$", "#"}
	for i < len(rs) {
		c := rs[i]
		if unicode.IsSpace(c) {
			i++
			continue
		}
		if unicode.IsLetter(c) || c == '_' {
			j := i
			for j < len(rs) && (unicode.IsLetter(rs[j]) || unicode.IsDigit(rs[j]) || rs[j] == '_') {
				j++
			}
			toks = append(toks, tok{"id", string(rs[i:j]), i})
			i = j
			continue
		}
		if unicode.IsDigit(c) {
			j := i
			for j < len(rs) && (unicode.IsDigit(rs[j]) || rs[j] == '_') {
				j++
			}
			toks = append(toks, tok{"int", strings.ReplaceAll(string(rs[i:j]), "_", ""), i})
			i = j
			continue
		}
		if c == '"' {
			j := i + 1
			var b strings.Builder
			for j < len(rs) && rs[j] != '"' {
				if rs[j] == '\\' && j+1 < len(rs) {
					j++
					switch rs[j] {
					case 'n':
						b.WriteRune('\n')
					case 't':
						b.WriteRune('\t')
					default:
						b.WriteRune(rs[j])
					}
				} else {
					b.WriteRune(rs[j])
				}
				j++
			}
			if j >= len(rs) {
				return nil, fmt.Errorf("unterminated string at %d", i)
			}
			toks = append(toks, tok{"str", b.String(), i})
			i = j + 1
			continue
		}
		matched := false
		for _, op := range ops {
			if strings.HasPrefix(string(rs[i:min(len(rs), i+len(op))]), op) {
				toks = append(toks, tok{"op", op, i})
				i += len(op)
				matched = true
				break
			}
		}
		if !matched {
			return nil, fmt.Errorf("unexpected character %q at %d in %q", c, i, src)
		}
	}
	toks = append(toks, tok{"eof", "", len(rs)})
	return toks, nil
}

type parser struct {
	toks []tok
	p    int
	src  string
	noIn int
}

func parseExpr(src string) (e Expr, err error) {
	toks, err := lex(src)
	if err != nil {
		return nil, err
	}
	ps := &parser{toks: toks, src: src}
	defer func() {
		if r := recover(); r != nil {
			if pe, ok := r.(parseErr); ok {
				err = fmt.Errorf("%s (in %q)", string(pe), src)
				return
			}
			panic(r)
		}
	}()
	e = ps.expr(0)
	if ps.peek().kind != "eof" {
		ps.fail("unexpected %q", ps.peek().s)
	}
	return e, nil
}

type parseErr string

func (ps *parser) fail(f string, a ...interface{}) {
	panic(parseErr(fmt.Sprintf("parse error at %d: ", ps.peek().pos) + fmt.Sprintf(f, a...)))
}
func (ps *parser) peek() tok { return ps.toks[ps.p] }
func (ps *parser) next() tok { t := ps.toks[ps.p]; ps.p++; return t }
func (ps *parser) isOp(s string) bool {
	t := ps.peek()
	return t.kind == "op" && t.s == s
}
func (ps *parser) isID(s string) bool {
	t := ps.peek()
	return t.kind == "id" && t.s == s
}
func (ps *parser) expectOp(s string) {
	if !ps.isOp(s) {
		ps.fail("expected %q, got %q", s, ps.peek().s)
	}
	ps.p++
}

// binary precedence
var binPrec = map[string]int{
	"<==>": 1, "==>": 2, "||": 4, "&&": 5,
	"==": 6, "!=": 6, "<": 6, "<=": 6, ">": 6, ">=": 6, "in": 6,
	"+": 7, "-": 7, "*": 8, "/": 8, "%": 8,
}

func (ps *parser) expr(minPrec int) Expr {
	lhs := ps.unary()
	for {
		t := ps.peek()
		var op string
		if t.kind == "op" {
			op = t.s
		} else if t.kind == "id" && t.s == "in" && ps.noIn == 0 {
			op = "in"
		}
		if op == "?" && minPrec <= 3 {
			ps.next()
			a := ps.expr(3)
			ps.expectOp(":")
			b := ps.expr(3)
			lhs = ECond{lhs, a, b}
			continue
		}
		prec, ok := binPrec[op]
		if !ok || prec < minPrec {
			return lhs
		}
		ps.next()
		var rhs Expr
		if op == "==>" {
			rhs = ps.expr(prec) // right assoc
		} else {
			rhs = ps.expr(prec + 1)
		}
		lhs = EBinary{op, lhs, rhs}
	}
}

func (ps *parser) unary() Expr {
	t := ps.peek()
	if t.kind == "op" {
		switch t.s {
		case "!":
			ps.next()
			return EUnary{"!", ps.unary()}
		case "-":
			ps.next()
			return EUnary{"-", ps.unary()}
		case "*":
			ps.next()
			return EUnary{"*", ps.unary()}
		}
	}
	if t.kind == "id" && (t.s == "forall" || t.s == "exists") {
		ps.next()
		var vars []QVar
		for {
			n := ps.next()
			if n.kind != "id" {
				ps.fail("expected quantified variable name")
			}
			ty := ps.typeExpr()
			vars = append(vars, QVar{n.s, ty})
			if ps.isOp(",") {
				ps.next()
				continue
			}
			break
		}
		ps.expectOp("::")
		var pats [][]Expr
		for ps.isOp("{") {
			ps.next()
			var pat []Expr
			for !ps.isOp("}") {
				pat = append(pat, ps.expr(0))
				if ps.isOp(",") {
					ps.next()
				}
			}
			ps.expectOp("}")
			pats = append(pats, pat)
		}
		body := ps.expr(0)
		return EQuant{t.s == "forall", vars, body, pats}
	}
	if t.kind == "id" && t.s == "let" {
		ps.next()
		n := ps.next()
		ps.expectOp("=")
		ps.noIn++
		v := ps.expr(3)
		ps.noIn--
		if !ps.isID("in") {
			ps.fail("expected 'in' after let binding")
		}
		ps.next()
		body := ps.expr(0)
		return ELet{n.s, v, body}
	}
	return ps.postfix(ps.primary())
}

func (ps *parser) typeExpr() TypeExpr {
	if ps.isOp("*") {
		ps.next()
		e := ps.typeExpr()
		return TypeExpr{Kind: "ptr", Elem: &e}
	}
	if ps.isOp("[") {
		ps.next()
		ps.expectOp("]")
		e := ps.typeExpr()
		return TypeExpr{Kind: "slice", Elem: &e}
	}
	t := ps.next()
	if t.kind != "id" {
		ps.fail("expected type, got %q", t.s)
	}
	if t.s == "Array" && ps.isOp("[") {
		ps.expectOp("[")
		k := ps.typeExpr()
		ps.expectOp("]")
		v := ps.typeExpr()
		return TypeExpr{Kind: "array", Key: &k, Elem: &v}
	}
	if t.s == "map" {
		ps.expectOp("[")
		k := ps.typeExpr()
		ps.expectOp("]")
		v := ps.typeExpr()
		return TypeExpr{Kind: "map", Key: &k, Elem: &v}
	}
	if ps.isOp(".") {
		ps.next()
		n := ps.next()
		return TypeExpr{Kind: "name", Pkg: t.s, Name: n.s}
	}
	return TypeExpr{Kind: "name", Name: t.s}
}

func (ps *parser) primary() Expr {
	t := ps.next()
	switch t.kind {
	case "int":
		return EInt{t.s}
	case "str":
		return EStr{t.s}
	case "id":
		switch t.s {
		case "true":
			return EBool{true}
		case "false":
			return EBool{false}
		case "nil":
			return ENil{}
		case "old":
			ps.expectOp("(")
			e := ps.expr(0)
			ps.expectOp(")")
			return EOld{e}
		}
		return EIdent{t.s}
	case "op":
		if t.s == "(" {
			// parenthesised expression, or a parenthesised pointer type used in a conversion: (*T)(x)
			if ps.isOp("*") {
				save := ps.p
				func() {
					defer func() {
						if r := recover(); r != nil {
							ps.p = save
						}
					}()
				}()
			}
			e := ps.expr(0)
			ps.expectOp(")")
			return e
		}
		if t.s == "[" {
			// a slice type used as a type argument: typeis(x, []string), unbox(x, []string)
			ps.p--
			te := ps.typeExpr()
			return EType{te}
		}
	}
	ps.p--
	ps.fail("unexpected token %q", t.s)
	return nil
}

func (ps *parser) postfix(e Expr) Expr {
	for {
		switch {
		case ps.isOp("."):
			ps.next()
			n := ps.next()
			if n.kind != "id" {
				ps.fail("expected selector name")
			}
			e = ESel{e, n.s}
		case ps.isOp("("):
			ps.next()
			var args []Expr
			for !ps.isOp(")") {
				args = append(args, ps.expr(0))
				if ps.isOp(",") {
					ps.next()
				} else {
					break
				}
			}
			ps.expectOp(")")
			e = ECall{e, args}
		case ps.isOp("["):
			ps.next()
			var lo, hi Expr
			if ps.isOp(":") {
				ps.next()
				hi = ps.expr(0)
				ps.expectOp("]")
				e = ESlice{e, nil, hi}
				continue
			}
			lo = ps.expr(0)
			if ps.isOp(":") {
				ps.next()
				if !ps.isOp("]") {
					hi = ps.expr(0)
				}
				ps.expectOp("]")
				e = ESlice{e, lo, hi}
				continue
			}
			ps.expectOp("]")
			e = EIndex{e, lo}
		default:
			return e
		}
	}
}

func exprString(e Expr) string {
	switch x := e.(type) {
	case EType:
		return x.T.String()
	case EIdent:
		return x.Name
	case EInt:
		return x.V
	case EStr:
		return fmt.Sprintf("%q", x.V)
	case EBool:
		return fmt.Sprint(x.V)
	case ENil:
		return "nil"
	case EUnary:
		return x.Op + exprString(x.X)
	case EBinary:
		return "(" + exprString(x.X) + " " + x.Op + " " + exprString(x.Y) + ")"
	case ECond:
		return "(" + exprString(x.C) + " ? " + exprString(x.A) + " : " + exprString(x.B) + ")"
	case ECall:
		var as []string
		for _, a := range x.Args {
			as = append(as, exprString(a))
		}
		return exprString(x.Fun) + "(" + strings.Join(as, ", ") + ")"
	case ESel:
		return exprString(x.X) + "." + x.Sel
	case EIndex:
		return exprString(x.X) + "[" + exprString(x.I) + "]"
	case EQuant:
		q := "exists"
		if x.Forall {
			q = "forall"
		}
		var vs []string
		for _, v := range x.Vars {
			vs = append(vs, v.Name+" "+v.T.String())
		}
		return "(" + q + " " + strings.Join(vs, ", ") + " :: " + exprString(x.Body) + ")"
	case EOld:
		return "old(" + exprString(x.X) + ")"
	case ELet:
		return "(let " + x.Name + " = " + exprString(x.Val) + " in " + exprString(x.Body) + ")"
	}
	return fmt.Sprintf("%v", e)
}
