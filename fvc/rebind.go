package main

// Loop invariants are proof hints written against the local variables of a function body. When a harmless edit renames
// such a local, the invariant names something that no longer exists; reporting that as a violation would be a false
// alarm. rebind tries the function's other locals in place of the missing name and keeps the first binding under which
// every obligation of the function is discharged.
//
// This is sound: only `loop N invariant` clauses can mention locals, and any inductive invariant that the solver accepts
// and that carries the (unchanged) ensures clauses is a valid proof, whichever local it talks about. Names in requires /
// ensures clauses are never re-bound: they denote parameters (by position, through the `params` clause) and results.

import (
	"fmt"
	"go/types"
	"os"
	"regexp"
	"sort"
	"strings"

	"golang.org/x/tools/go/ssa"
)

var identTok = regexp.MustCompile(`[A-Za-z_][A-Za-z0-9_]*`)

// localNames: the named local variables of fn (stack and escaping), in declaration order.
func localNames(fn *ssa.Function) []string {
	var out []string
	seen := map[string]bool{}
	add := func(n string) {
		if n != "" && n != "_" && !seen[n] && identTok.FindString(n) == n {
			seen[n] = true
			out = append(out, n)
		}
	}
	for _, a := range fn.Locals {
		add(a.Comment)
	}
	for _, b := range fn.Blocks {
		for _, ins := range b.Instrs {
			if a, ok := ins.(*ssa.Alloc); ok && a.Heap {
				add(a.Comment)
			}
		}
	}
	return out
}

// contractIdents: every identifier the contract of fc mentions.
func contractIdents(fc *FuncContract) map[string]bool {
	m := map[string]bool{}
	addAll := func(cls []*Clause) {
		for _, c := range cls {
			for _, t := range identTok.FindAllString(c.Src, -1) {
				m[t] = true
			}
		}
	}
	addAll(fc.Requires)
	addAll(fc.Assumes)
	addAll(fc.Ensures)
	for _, l := range fc.Loops {
		addAll(l.Invariants)
		if l.Decreases != nil {
			addAll([]*Clause{l.Decreases})
		}
	}
	return m
}

// rebind is called with a result that failed on an unknown identifier. accept decides whether a candidate result is a
// complete proof (it solves the obligations). Returns the accepted result, or nil.
func (e *Engine) rebind(fc *FuncContract, res *FuncResult, accept func(*FuncResult) bool) *FuncResult {
	fn := e.findFunc(fc.PkgPath, fc.Key)
	if fn == nil || res.UnknownIdent == "" {
		return nil
	}
	inLoops := map[string]bool{}
	for _, l := range fc.Loops {
		for _, c := range l.Invariants {
			for _, t := range identTok.FindAllString(c.Src, -1) {
				inLoops[t] = true
			}
		}
		if l.Decreases != nil {
			for _, t := range identTok.FindAllString(l.Decreases.Src, -1) {
				inLoops[t] = true
			}
		}
	}
	// a local is "taken" when the invariants already use its name as a variable (a name followed by "(" is a spec function)
	taken := map[string]bool{}
	for _, l := range fc.Loops {
		cls := append([]*Clause{}, l.Invariants...)
		if l.Decreases != nil {
			cls = append(cls, l.Decreases)
		}
		for _, c := range cls {
			for _, loc := range identTok.FindAllStringIndex(c.Src, -1) {
				if loc[1] < len(c.Src) && c.Src[loc[1]] == '(' {
					continue
				}
				if loc[0] > 0 && c.Src[loc[0]-1] == '.' {
					continue // a field or package member
				}
				taken[c.Src[loc[0]:loc[1]]] = true
			}
		}
	}
	for _, p := range fn.Params {
		taken[p.Name()] = true // parameters are bound by position (`params`), never by this search
	}
	var free []string
	for _, n := range localNames(fn) {
		if !taken[n] {
			free = append(free, n)
		}
	}
	// types of the function's locals now
	typeOf := map[string]string{}
	for _, a := range fn.Locals {
		typeOf[a.Comment] = types.TypeString(deref(a.Type()), nil)
	}
	for _, b := range fn.Blocks {
		for _, ins := range b.Instrs {
			if a, ok := ins.(*ssa.Alloc); ok && a.Heap {
				typeOf[a.Comment] = types.TypeString(deref(a.Type()), nil)
			}
		}
	}
	finish := func(r2 *FuncResult, a2 map[string]string) *FuncResult {
		var ks []string
		for k := range a2 {
			ks = append(ks, k)
		}
		sort.Strings(ks)
		for _, k := range ks {
			r2.Notes = append(r2.Notes, fmt.Sprintf("%s: the loop invariants name a local `%s` that the function no longer has; they were re-bound to `%s` (proof hints only; requires/ensures are unaffected) and every obligation was discharged under that binding", fc.Key, k, a2[k]))
		}
		return r2
	}
	debug := func(a2 map[string]string, r2 *FuncResult) {
		if os.Getenv("FVC_DEBUG_REBIND") != "" {
			fmt.Fprintf(os.Stderr, "rebind %s: %v -> status=%s unknown=%q err=%s\n", fc.Key, a2, r2.Status, r2.UnknownIdent, truncate(r2.Error, 300))
		}
	}
	budget := 24
	// 1. with pinned `locals`: every missing name is known at once, together with its type. A rename keeps the order of
	// declaration, so the k-th missing local of a type is first tried as the k-th unused local of that type; other
	// pairings within a type follow.
	if len(fc.LocalsOrder) > 0 {
		have := map[string]bool{}
		for _, n := range localNames(fn) {
			have[n] = true
		}
		var missing []string
		for _, n := range fc.LocalsOrder {
			if !have[n] && inLoops[n] {
				missing = append(missing, n)
			}
		}
		complete := len(missing) > 0
		byType := map[string][]string{} // type -> unused locals, in declaration order
		for _, n := range free {
			byType[typeOf[n]] = append(byType[typeOf[n]], n)
		}
		groups := map[string][]string{} // type -> missing names, in pinned order
		var typesInOrder []string
		for _, m := range missing {
			T := fc.Locals[m]
			if len(groups[T]) == 0 {
				typesInOrder = append(typesInOrder, T)
			}
			groups[T] = append(groups[T], m)
		}
		for _, T := range typesInOrder {
			if len(byType[T]) < len(groups[T]) {
				complete = false // a local was removed, not renamed
			}
		}
		if os.Getenv("FVC_DEBUG_REBIND") != "" {
			fmt.Fprintf(os.Stderr, "rebind %s: missing=%v free=%v byType=%v complete=%v\n", fc.Key, missing, free, byType, complete)
		}
		if complete {
			// enumerate injective assignments group by group, order-preserving one first
			var assigns []map[string]string
			var rec func(gi int, cur map[string]string)
			var perm func(ms []string, cands []string, used []bool, k int, cur map[string]string, next func(map[string]string))
			perm = func(ms []string, cands []string, used []bool, k int, cur map[string]string, next func(map[string]string)) {
				if len(assigns) >= budget {
					return
				}
				if k == len(ms) {
					next(cur)
					return
				}
				// candidate order: position k first (order-preserving), then the others
				order := []int{}
				if k < len(cands) {
					order = append(order, k)
				}
				for c := range cands {
					if c != k {
						order = append(order, c)
					}
				}
				for _, c := range order {
					if used[c] {
						continue
					}
					used[c] = true
					cur[ms[k]] = cands[c]
					perm(ms, cands, used, k+1, cur, next)
					delete(cur, ms[k])
					used[c] = false
				}
			}
			rec = func(gi int, cur map[string]string) {
				if gi == len(typesInOrder) {
					cp := map[string]string{}
					for k, v := range cur {
						cp[k] = v
					}
					assigns = append(assigns, cp)
					return
				}
				T := typesInOrder[gi]
				perm(groups[T], byType[T], make([]bool, len(byType[T])), 0, cur, func(c map[string]string) { rec(gi+1, c) })
			}
			rec(0, map[string]string{})
			for _, a2 := range assigns {
				if budget <= 0 {
					break
				}
				budget--
				r2 := e.verifyFuncAlias(fc, a2)
				debug(a2, r2)
				if r2.Status == "ok" && accept(r2) {
					return finish(r2, a2)
				}
				if r2.Status != "ok" && r2.UnknownIdent != "" {
					break // something else is missing too: fall through to the incremental search
				}
			}
		}
	}
	// 2. incremental search, one unknown identifier at a time
	var try func(alias map[string]string, missing string, depth int) *FuncResult
	try = func(alias map[string]string, missing string, depth int) *FuncResult {
		if !inLoops[missing] || depth > 3 {
			return nil
		}
		cands := free
		if missing == "rangeindex" {
			// a range loop rewritten as an index loop: the hidden index of the range loop is the loop counter minus one
			cands = nil
			for _, n := range localNames(fn) {
				if typeOf[n] == "int" && n != "rangeindex" {
					cands = append(cands, n+"-1")
				}
			}
		} else if fc.Locals[missing] == "int" && typeOf["rangeindex"] == "int" {
			// an index loop rewritten as a range loop: the counter is the hidden index plus one
			cands = append(append([]string{}, free...), "rangeindex+1")
		}
		for _, cand := range cands {
			used := false
			for _, v := range alias {
				if v == cand {
					used = true
				}
			}
			if used || budget <= 0 {
				continue
			}
			base := strings.TrimSuffix(strings.TrimSuffix(cand, "-1"), "+1")
			if want, ok := fc.Locals[missing]; ok && typeOf[base] != want {
				continue // the contract pinned the local's type: only a local of that type can be the renamed one
			}
			budget--
			a2 := map[string]string{}
			for k, v := range alias {
				a2[k] = v
			}
			a2[missing] = cand
			r2 := e.verifyFuncAlias(fc, a2)
			debug(a2, r2)
			switch {
			case r2.Status == "ok":
				if accept(r2) {
					return finish(r2, a2)
				}
			case r2.UnknownIdent != "" && r2.UnknownIdent != missing:
				if _, dup := a2[r2.UnknownIdent]; !dup {
					if r3 := try(a2, r2.UnknownIdent, depth+1); r3 != nil {
						return r3
					}
				}
			}
		}
		return nil
	}
	return try(map[string]string{}, res.UnknownIdent, 1)
}
