package main

import (
	"encoding/json"
	"flag"
	"fmt"
	"go/types"
	"os"
	"path/filepath"
	"regexp"
	"sort"
	"strings"
	"time"

	"golang.org/x/tools/go/ssa"
)

func main() {
	if len(os.Args) < 2 {
		fmt.Fprintln(os.Stderr, "usage: fvc check|dump|list ...")
		os.Exit(2)
	}
	switch os.Args[1] {
	case "check":
		os.Exit(cmdCheck(os.Args[2:]))
	case "dump":
		os.Exit(cmdDump(os.Args[2:]))
	case "replay":
		os.Exit(cmdReplay(os.Args[2:]))
	case "params":
		os.Exit(cmdParams(os.Args[2:]))
	default:
		fmt.Fprintln(os.Stderr, "unknown command", os.Args[1])
		os.Exit(2)
	}
}

func setupEngine(repo, verif string, overlay map[string][]byte) (*Engine, error) {
	e := newEngine(repo, filepath.Join(verif, "fvc", "lib"))
	if data, err := os.ReadFile(filepath.Join(verif, "known_findings.json")); err == nil {
		if err := json.Unmarshal(data, &e.known); err != nil {
			return nil, fmt.Errorf("known_findings.json: %v", err)
		}
	}
	if err := e.load([]string{"./pkg/...", "./apis/..."}, overlay); err != nil {
		return nil, err
	}
	if err := e.loadContracts(); err != nil {
		return nil, err
	}
	return e, nil
}

func hasTag(tags []string, p string) bool {
	for _, t := range tags {
		if t == p {
			return true
		}
	}
	return false
}

// servesProperty: does this contract carry clauses for property p?
func servesProperty(fc *FuncContract, p string) bool {
	if hasTag(fc.Tags, p) {
		return true
	}
	for _, c := range fc.Requires {
		if hasTag(c.Tags, p) {
			return true
		}
	}
	for _, c := range fc.Ensures {
		if hasTag(c.Tags, p) {
			return true
		}
	}
	for _, l := range fc.Loops {
		for _, c := range l.Invariants {
			if hasTag(c.Tags, p) {
				return true
			}
		}
	}
	return false
}

func cmdDump(args []string) int {
	fs := flag.NewFlagSet("dump", flag.ExitOnError)
	repo := fs.String("repo", "/repo", "")
	verif := fs.String("verif", "/verif", "")
	fn := fs.String("func", "", "pkgpath-suffix::Key")
	out := fs.String("out", "/tmp/fvc-dump", "")
	solve := fs.Bool("solve", true, "")
	sweep := fs.Bool("sweep", false, "")
	reach := fs.Bool("reach", false, "also check that every return path is reachable (anti-vacuity review)")
	timeout := fs.Int("timeout", 10000, "")
	fs.Parse(args)
	e, err := setupEngine(*repo, *verif, nil)
	if err != nil {
		fmt.Fprintln(os.Stderr, err)
		return 2
	}
	e.sweep = *sweep
	e.reach = *reach
	os.MkdirAll(*out, 0o755)
	rc := 0
	for _, cf := range e.files {
		for _, fc := range cf.Funcs {
			if fc.Extern {
				continue
			}
			full := cf.PkgPath + "::" + fc.Key
			if *fn != "" && !strings.Contains(full, *fn) {
				continue
			}
			res := e.verifyFunc(fc)
			fmt.Printf("== %s: %s %s\n", full, res.Status, res.Error)
			if *solve {
				solveAll(res.Obligations, *out, *timeout, 16, false)
			}
			for _, o := range res.Obligations {
				ok := o.Result == o.Expect || (o.Expect == "sat" && (o.Result == "unknown" || o.Result == "timeout"))
				mark := "ok  "
				if !ok {
					mark = "FAIL"
					rc = 1
				}
				fmt.Printf("  %s %-70s %s %s %dms %s\n", mark, o.Name, o.Result, o.Solver, o.Ms, truncate(o.Detail, 200))
			}
			fmt.Printf("  inlined=%v externs=%v natives=%v noops=%v notes=%v\n", res.Inlined, res.Externs, res.Natives, res.Noops, res.Notes)
		}
		for _, l := range cf.Lemmas {
			full := cf.PkgPath + "::lemma " + l.Name
			if *fn != "" && !strings.Contains(full, *fn) {
				continue
			}
			res := e.verifyLemma(l)
			fmt.Printf("== %s: %s %s\n", full, res.Status, res.Error)
			if *solve {
				solveAll(res.Obligations, *out, *timeout, 16, false)
			}
			for _, o := range res.Obligations {
				fmt.Printf("  %-70s %s %s %dms\n", o.Name, o.Result, o.Solver, o.Ms)
			}
		}
	}
	return rc
}

// ---------------------------------------------------------------------------
// check

type KnownFinding struct {
	ID         string   `json:"id"`
	Properties []string `json:"properties"`
	Obligation string   `json:"obligation"`
	Guard      string   `json:"guard,omitempty"` // spec expression over the function's parameters: the known failing class
	What       string   `json:"what"`
	Status     string   `json:"status"` // "known" or "fixed"
	Commit     string   `json:"commit,omitempty"`
}

type Evidence struct {
	PropertyID  string                 `json:"property_id"`
	Tier        string                 `json:"tier"`
	Seed        int                    `json:"seed"`
	Level       string                 `json:"level"`
	Coverage    map[string]interface{} `json:"coverage"`
	Assumptions []string               `json:"assumptions"`
	WallS       float64                `json:"wall_s"`
	Violations  int                    `json:"violations"`
}

var nameRe = regexp.MustCompile(`[^A-Za-z0-9_.#:@$-]`)

func cmdCheck(args []string) int {
	fs := flag.NewFlagSet("check", flag.ExitOnError)
	repo := fs.String("repo", "/repo", "")
	verif := fs.String("verif", "/verif", "")
	prop := fs.String("prop", "", "property id")
	tier := fs.String("tier", "quick", "")
	seed := fs.Int("seed", 0, "")
	outDir := fs.String("out", "", "directory receiving evidence/ and replays/ (default: -verif)")
	fs.Parse(args)
	if *outDir == "" {
		*outDir = *verif
	}
	t0 := time.Now()
	timeout := 20000
	agree := false
	if *tier == "thorough" {
		timeout = 60000
		agree = true
	}
	e, err := setupEngine(*repo, *verif, nil)
	if err != nil {
		fmt.Fprintln(os.Stderr, "fvc: load failed:", err)
		// a tree that does not load cannot be checked; this is an infrastructure failure, not a violation
		return 2
	}
	if *tier == "thorough" {
		// deeper exploration: reachability of every return path (anti-vacuity) and the unclaimed safety sweep;
		// both are reported in the evidence, neither can raise a violation
		e.reach = true
		e.sweep = true
	}
	tmp, err := os.MkdirTemp("", "fvc-"+*prop+"-")
	if err != nil {
		fmt.Fprintln(os.Stderr, err)
		return 2
	}
	defer os.RemoveAll(tmp)

	// solve: all obligations in parallel; those left undecided (timeout / unknown) where a proof is expected are then
	// tried once more with three times the budget and few of them at a time, so that a loaded machine does not turn a
	// 7-second proof into an alarm
	solve := func(os []*Obligation, agree bool) {
		solveAll(os, tmp, timeout, 16, agree)
		var again []*Obligation
		for _, o := range os {
			if o.Kind != "known-finding" && o.Expect == "unsat" && (o.Result == "timeout" || o.Result == "unknown") {
				o.Detail = "first attempt (" + fmt.Sprint(timeout) + " ms, 16 at a time): " + o.Result + "; " + o.Detail
				o.Result = ""
				again = append(again, o)
			}
		}
		if len(again) > 0 && len(again) <= 8 {
			solveAll(again, tmp, 4*timeout, 6, false)
		} else {
			for _, o := range again {
				o.Result = "timeout"
			}
		}
	}
	// verify: generate the obligations of one function; when the loop invariants name a local the function no longer
	// has (a harmless rename), try the function's other locals in its place (rebind.go)
	verify := func(fc *FuncContract) *FuncResult {
		res := e.verifyFuncAlias(fc, nil)
		if res.Status == "ok" || res.UnknownIdent == "" {
			return res
		}
		accept := func(r2 *FuncResult) bool {
			var os2 []*Obligation
			for _, o := range r2.Obligations {
				if (len(o.Tags) > 0 && !hasTag(o.Tags, *prop)) || o.Kind == "reach" || !o.Claimed || o.Kind == "known-finding" {
					continue
				}
				os2 = append(os2, o)
			}
			solve(os2, false)
			for _, o := range os2 {
				if !(o.Result == o.Expect || (o.Expect == "sat" && (o.Result == "unknown" || o.Result == "timeout"))) {
					if os.Getenv("FVC_DEBUG_REBIND") != "" {
						fmt.Fprintf(os.Stderr, "rebind %s: candidate rejected by %s -> %s\n", fc.Key, o.Name, o.Result)
					}
					return false
				}
			}
			return true
		}
		if r2 := e.rebind(fc, res, accept); r2 != nil {
			return r2
		}
		return res
	}
	var results []*FuncResult
	for _, cf := range e.files {
		for _, fc := range cf.Funcs {
			if fc.Extern || !servesProperty(fc, *prop) {
				continue
			}
			results = append(results, verify(fc))
		}
		for _, l := range cf.Lemmas {
			if hasTag(l.Tags, *prop) {
				results = append(results, e.verifyLemma(l))
			}
		}
	}
	// callee contracts relied upon that carry no property tag at all are verified here too (helpers), transitively;
	// callee contracts tagged for other properties are verified by those properties' checks (listed in the evidence)
	verified := map[*FuncContract]bool{}
	for _, cf := range e.files {
		for _, fc := range cf.Funcs {
			if !fc.Extern && servesProperty(fc, *prop) {
				verified[fc] = true
			}
		}
	}
	var reliedOn []string
	untagged := func(fc *FuncContract) bool {
		if len(fc.Tags) > 0 {
			return false
		}
		for _, c := range append(append([]*Clause{}, fc.Requires...), fc.Ensures...) {
			if len(c.Tags) > 0 {
				return false
			}
		}
		return true
	}
	for i := 0; i < len(results); i++ {
		used := results[i].Used
		sort.Slice(used, func(a, b int) bool { return used[a].Key < used[b].Key })
		for _, fc := range used {
			if verified[fc] {
				continue
			}
			verified[fc] = true
			if untagged(fc) {
				results = append(results, verify(fc))
			} else {
				reliedOn = append(reliedOn, fc.Key+" (verified by the checks of "+strings.Join(tagsOf(fc), ",")+")")
			}
		}
	}
	var obls, reachObls, sweepObls []*Obligation
	collect := func() {
		obls, reachObls, sweepObls = nil, nil, nil
		for _, res := range results {
			for _, o := range res.Obligations {
				if len(o.Tags) > 0 && !hasTag(o.Tags, *prop) {
					continue // belongs to another property only
				}
				if o.Kind == "reach" {
					reachObls = append(reachObls, o)
					continue
				}
				if !o.Claimed {
					sweepObls = append(sweepObls, o)
					continue
				}
				obls = append(obls, o)
			}
		}
	}
	collect()
	solve(obls, agree)
	// a function whose loops were moved into (or out of) helpers without a contract: when it fails with the loop clauses
	// attached by ordinal, attach them in program order and try again (remap.go); kept only if everything discharges
	oblOK := func(o *Obligation) bool {
		return o.Kind == "known-finding" || o.Result == o.Expect || (o.Expect == "sat" && (o.Result == "unknown" || o.Result == "timeout"))
	}
	for i, res := range results {
		if res.FC == nil || res.Remapped {
			continue
		}
		failing := res.Status != "ok"
		for _, o := range res.Obligations {
			if (len(o.Tags) > 0 && !hasTag(o.Tags, *prop)) || o.Kind == "reach" || !o.Claimed {
				continue
			}
			if !oblOK(o) {
				failing = true
			}
		}
		if !failing || !e.loopsMoved(res.FC) {
			continue
		}
		e.remapLoops[res.FC] = true
		alt := verify(res.FC)
		good := alt.Status == "ok"
		if os.Getenv("FVC_DEBUG_REBIND") != "" {
			fmt.Fprintf(os.Stderr, "remap %s: status=%s err=%s\n", res.FC.Key, alt.Status, truncate(alt.Error, 400))
		}
		if good {
			var os2 []*Obligation
			for _, o := range alt.Obligations {
				if (len(o.Tags) > 0 && !hasTag(o.Tags, *prop)) || o.Kind == "reach" || !o.Claimed {
					continue
				}
				os2 = append(os2, o)
			}
			solve(os2, false)
			for _, o := range os2 {
				if !oblOK(o) {
					good = false
					if os.Getenv("FVC_DEBUG_REBIND") != "" {
						fmt.Fprintf(os.Stderr, "remap %s: %s -> %s\n", res.FC.Key, o.Name, o.Result)
					}
				}
			}
		}
		if good {
			alt.Notes = append(alt.Notes, res.FC.Key+": the function's loops no longer match the ordinals of its loop clauses (a loop was moved into or out of a helper without a contract); the clauses were attached in program order across the function and its inlined helpers (proof hints only; requires/ensures are unaffected) and every obligation was discharged")
			results[i] = alt
		} else {
			delete(e.remapLoops, res.FC)
		}
	}
	collect()
	var unreachable, sweepOpen []string
	sweepDone := 0
	if *tier == "thorough" {
		solveAll(reachObls, tmp, 5000, 16, false)
		for _, o := range reachObls {
			if o.Result == "unsat" {
				unreachable = append(unreachable, o.Name)
			}
		}
		solveAll(sweepObls, tmp, 10000, 16, false)
		for _, o := range sweepObls {
			if o.Result == "unsat" {
				sweepDone++
			} else {
				sweepOpen = append(sweepOpen, o.Name+" ("+o.Result+")")
			}
		}
	}

	isKnown := func(name string) *KnownFinding {
		for i := range e.known {
			if e.known[i].Status == "known" && e.known[i].Obligation == name {
				return &e.known[i]
			}
		}
		if ck := safetyClassKey(name); ck != "" {
			for i := range e.known {
				if e.known[i].Status == "known" && strings.TrimSpace(e.known[i].Guard) != "" && safetyClassKey(e.known[i].Obligation) == ck {
					return &e.known[i]
				}
			}
		}
		return nil
	}

	replayDir := filepath.Join(*outDir, "replays", *prop)
	os.MkdirAll(replayDir, 0o755)
	violations := 0
	discharged := 0
	var solverMs int64
	var samples []interface{}
	var failedNames []string
	bySolver := map[string]int{}
	knownSeen := map[string]bool{}
	var proofObls []*Obligation
	for _, o := range obls {
		if o.Kind == "known-finding" {
			// the known failing class: still failing (sat / undecided) -> report as known; proved -> it has been fixed, say nothing
			if o.Result != "unsat" {
				kf := isKnown(strings.TrimSuffix(o.Name, "?known"))
				what := ""
				if kf != nil {
					what = kf.ID + " " + kf.What
				}
				fmt.Printf("KNOWN-FINDING: property=%s %s: %s\n", *prop, strings.TrimSuffix(o.Name, "?known"), what)
				knownSeen[strings.TrimSuffix(o.Name, "?known")] = true
			}
			continue
		}
		proofObls = append(proofObls, o)
	}
	obls = proofObls
	for _, o := range obls {
		solverMs += o.Ms
		ok := o.Result == o.Expect || (o.Expect == "sat" && (o.Result == "unknown" || o.Result == "timeout"))
		if ok {
			discharged++
			bySolver[o.Solver]++
			if len(samples) < 12 {
				samples = append(samples, map[string]interface{}{"obligation": o.Name, "kind": o.Kind, "clause": truncate(o.Src, 160), "solver": o.Solver, "result": o.Result, "ms": o.Ms})
			}
			continue
		}
		violations++
		failedNames = append(failedNames, o.Name)
		path := filepath.Join(replayDir, sanitize(o.Name)+".json")
		rep := map[string]interface{}{"property": *prop, "obligation": o.Name, "kind": o.Kind, "function": o.Func, "clause": o.Src, "position": o.Pos,
			"solver_result": o.Result, "solver": o.Solver, "solver_detail": o.Detail, "model": o.Model, "replayed": false}
		suffix := " no-failing-input-found"
		if o.Result == "sat" && o.Model != "" {
			if rr := tryReplay(e, o, *repo, *verif); rr != nil {
				rep["replay"] = rr
				if rr.Confirmed {
					rep["replayed"] = true
					suffix = ""
				}
			}
		}
		data, _ := json.MarshalIndent(rep, "", " ")
		os.WriteFile(path, data, 0o644)
		fmt.Printf("VIOLATION property=%s replay=%s obligation=%s result=%s%s\n", *prop, path, o.Name, o.Result, suffix)
	}
	// structural problems: functions outside the subset / stale contracts are undecided -> reported as failed obligations
	var funcs, outside, inlined, externs, natives, noops, notes []string
	for _, res := range results {
		if res.Status == "stale" && unexportedFunc(res.Key) {
			// an unexported helper that no longer exists (inlined at its call sites, or renamed): its contract has nothing
			// left to speak about. The functions that contained the calls are verified with the code they now contain, so
			// nothing the property needs is skipped; reported in the evidence, not as a violation.
			notes = append(notes, "contract of "+res.Pkg+"."+res.Key+" skipped: the unexported function no longer exists (inlined or renamed); its former callers are verified with their current bodies")
			continue
		}
		if res.Status != "ok" {
			name := res.Pkg + "::" + res.Key + "#" + res.Status
			if kf := isKnown(name); kf != nil {
				fmt.Printf("KNOWN-FINDING: property=%s %s: %s\n", *prop, name, kf.What)
				continue
			}
			violations++
			outside = append(outside, res.Key+": "+res.Error)
			path := filepath.Join(replayDir, sanitize(name)+".json")
			data, _ := json.MarshalIndent(map[string]interface{}{"property": *prop, "obligation": name, "error": res.Error, "replayed": false}, "", " ")
			os.WriteFile(path, data, 0o644)
			fmt.Printf("VIOLATION property=%s replay=%s obligation=%s (%s) no-failing-input-found\n", *prop, path, name, truncate(res.Error, 200))
			continue
		}
		funcs = append(funcs, res.Func)
		inlined = append(inlined, res.Inlined...)
		externs = append(externs, res.Externs...)
		natives = append(natives, res.Natives...)
		noops = append(noops, res.Noops...)
		notes = append(notes, res.Notes...)
	}
	if len(obls) == 0 {
		fmt.Printf("fvc: no obligations generated for %s\n", *prop)
		return 2
	}
	// bounded stand-ins for functions outside the verifier's reach (labelled bounded; never counted as proved)
	bounded, bfails := runBounded(*repo, *verif, *prop, *tier)
	for _, b := range bounded {
		if b.Passed {
			continue
		}
		violations++
		path := filepath.Join(replayDir, "bounded_"+sanitize(b.Name)+".json")
		data, _ := json.MarshalIndent(map[string]interface{}{"property": *prop, "obligation": "bounded:" + b.Name, "kind": "bounded stand-in (real code, go test -overlay)",
			"what": b.Function, "bound": b.Bound, "cmd": b.Cmd, "source": filepath.Join(*verif, "bounded", *prop, b.Name+"_test.go"), "output": b.OutputEnd, "replayed": true}, "", " ")
		os.WriteFile(path, data, 0o644)
		fmt.Printf("VIOLATION property=%s replay=%s obligation=bounded:%s (failing input printed by the real code; see output)\n", *prop, path, b.Name)
	}
	_ = bfails
	uniq := func(xs []string) []string {
		m := map[string]bool{}
		var out []string
		for _, x := range xs {
			if !m[x] {
				m[x] = true
				out = append(out, x)
			}
		}
		sort.Strings(out)
		return out
	}
	assumptions := []string{
		"partial correctness: postconditions hold on normal return; panics are excluded only where a `safety` clause claims them",
		"integers are mathematical; overflow is checked only where a `safety overflow` clause claims it",
		"no goroutine interleavings are explored; sync/atomic/sync.Map operations carry sequential contracts",
	}
	for _, n := range uniq(notes) {
		assumptions = append(assumptions, n)
	}
	for _, x := range uniq(externs) {
		assumptions = append(assumptions, "assumed contract (extern): "+x)
	}
	for _, x := range uniq(natives) {
		assumptions = append(assumptions, "trusted library model: "+x)
	}
	for _, x := range uniq(reliedOn) {
		assumptions = append(assumptions, "callee contract relied upon, verified under another property: "+x)
	}
	for _, x := range uniq(noops) {
		assumptions = append(assumptions, "treated as side-effect-free no-op: "+x)
	}
	ev := Evidence{PropertyID: *prop, Tier: *tier, Seed: *seed, Level: "proof", Assumptions: assumptions, WallS: time.Since(t0).Seconds(), Violations: violations,
		Coverage: map[string]interface{}{
			"obligations":              len(obls),
			"discharged":               discharged,
			"checker_cmd":              fmt.Sprintf("fvc check -prop %s -tier %s (go/ssa weakest-precondition VCs; z3-new 5.1.0, z3 4.8.12, cvc5 1.0.3 portfolio, %d ms/obligation)", *prop, *tier, timeout),
			"trusted_base":             []string{"go/types + go/ssa (x/tools v0.29.0)", "fvc translation (SSA -> SMT)", "z3 / cvc5", "fvc/lib/*.spec extern contracts and lib.go models", "contracts marked extern in zz_contracts_verif.go"},
			"functions_under_contract": uniq(funcs),
			"inlined_callees":          uniq(inlined),
			"outside_subset":           outside,
			"discharged_by_solver":     bySolver,
			"solver_ms_total":          solverMs,
			"failed_obligations":       failedNames,
			"known_findings_seen":      keysOf(knownSeen),
			"samples":                  samples,
			"bounded_stand_ins":        bounded,
		}}
	if *tier == "thorough" {
		ev.Coverage["return_paths_checked_for_reachability"] = len(reachObls)
		ev.Coverage["unreachable_return_paths"] = unreachable
		ev.Coverage["unreachable_note"] = "a return path that no input reaches under the stated assumptions (e.g. 'the lister fails only with NotFound'); reviewed by hand, reported, never a violation"
		ev.Coverage["unclaimed_safety_sweep"] = map[string]interface{}{"obligations": len(sweepObls), "discharged": sweepDone, "open": sweepOpen,
			"note": "nil / index / overflow / alloc / type-assertion obligations of bodies whose contract does not claim them; informational"}
	}
	os.MkdirAll(filepath.Join(*outDir, "evidence"), 0o755)
	data, _ := json.MarshalIndent(ev, "", " ")
	os.WriteFile(filepath.Join(*outDir, "evidence", *prop+".json"), data, 0o644)
	fmt.Printf("fvc: property=%s tier=%s functions=%d obligations=%d discharged=%d violations=%d wall=%.1fs\n", *prop, *tier, len(funcs), len(obls), discharged, violations, time.Since(t0).Seconds())
	if violations > 0 {
		return 1
	}
	return 0
}

func tagsOf(fc *FuncContract) []string {
	m := map[string]bool{}
	for _, t := range fc.Tags {
		m[t] = true
	}
	for _, c := range append(append([]*Clause{}, fc.Requires...), fc.Ensures...) {
		for _, t := range c.Tags {
			m[t] = true
		}
	}
	return keysOf(m)
}

// cmdReplay re-presents a recorded violation: prints the obligation, clause and solver answer, and, when the record carries
// a generated test (a counterexample that was replayed on the real code), runs that test again against -repo.
// Exit status 1: the record describes a violation (and, if it has a test, the test still shows the recorded observations).
func cmdReplay(args []string) int {
	fs := flag.NewFlagSet("replay", flag.ExitOnError)
	repo := fs.String("repo", "/repo", "")
	file := fs.String("file", "", "replay file written by a check")
	fs.Parse(args)
	data, err := os.ReadFile(*file)
	if err != nil {
		fmt.Fprintln(os.Stderr, err)
		return 2
	}
	var rec map[string]interface{}
	if err := json.Unmarshal(data, &rec); err != nil {
		fmt.Fprintln(os.Stderr, "not a replay file:", err)
		return 2
	}
	fmt.Printf("property:   %v\nobligation: %v\nclause:     %v\nposition:   %v\nsolver:     %v (%v)\n", rec["property"], rec["obligation"], rec["clause"], rec["position"], rec["solver_result"], rec["solver"])
	if out, ok := rec["output"].(string); ok && out != "" {
		fmt.Printf("recorded output of the bounded stand-in:\n%s\n", out)
	}
	rp, _ := rec["replay"].(map[string]interface{})
	if rp == nil {
		fmt.Println("no counterexample was replayed for this record (no-failing-input-found):", rec["solver_detail"])
		return 1
	}
	src, _ := rp["test_source"].(string)
	pkg, _ := rp["package_dir"].(string)
	if src == "" || pkg == "" {
		fmt.Println("no generated test in this record:", rp["note"])
		return 1
	}
	fmt.Printf("inputs:     %v\nre-running the generated test against %s/%s\n", rp["inputs"], *repo, pkg)
	run := runOverlayTest(*repo, pkg, "zz_fvc_replay_test.go", []byte(src), "^TestFvcReplay$", nil, 3*time.Minute)
	fmt.Println(run.Output)
	same := true
	if obs, ok := rp["observed"].(map[string]interface{}); ok {
		for k, v := range obs {
			if !strings.Contains(run.Output, fmt.Sprintf("FVC-OBS %s=%v", k, v)) {
				same = false
			}
		}
	}
	if same && rp["confirmed"] == true {
		fmt.Println("replay: the real code shows the recorded behaviour again (violation confirmed when it was recorded)")
		return 1
	}
	fmt.Println("replay: the recorded behaviour is not reproduced on this tree")
	return 0
}

// cmdParams lists, for every in-repo function contract without a `params` clause, the parameter names of the function as
// the source has them now (receiver first), as "file:line: params a, b, c". tools/pin_params.py writes them into the
// contract files, which makes the names in requires / ensures positional: a later rename of a parameter in the source
// does not change what the contract says.
func cmdParams(args []string) int {
	fs := flag.NewFlagSet("params", flag.ExitOnError)
	repo := fs.String("repo", "/repo", "")
	verif := fs.String("verif", "/verif", "")
	fs.Parse(args)
	e, err := setupEngine(*repo, *verif, nil)
	if err != nil {
		fmt.Fprintln(os.Stderr, "fvc: load failed:", err)
		return 2
	}
	for _, cf := range e.files {
		for _, fc := range cf.Funcs {
			if fc.Extern || fc.PkgPath == "" {
				continue
			}
			fn := e.findFunc(fc.PkgPath, fc.Key)
			if fn == nil {
				continue
			}
			if len(fc.Locals) == 0 && len(fc.Loops) > 0 {
				in := map[string]bool{}
				for _, l := range fc.Loops {
					for _, c := range l.Invariants {
						for _, t := range identTok.FindAllString(c.Src, -1) {
							in[t] = true
						}
					}
				}
				var parts []string
				seen := map[string]bool{}
				add := func(a *ssa.Alloc) {
					isParam := a.Comment == "rangeindex"
					for _, p := range fc.Params {
						isParam = isParam || p == a.Comment
					}
					for _, p := range fn.Params {
						isParam = isParam || p.Name() == a.Comment
					}
					if in[a.Comment] && !seen[a.Comment] && !isParam {
						seen[a.Comment] = true
						parts = append(parts, a.Comment+": "+types.TypeString(deref(a.Type()), nil))
					}
				}
				for _, a := range fn.Locals {
					add(a)
				}
				for _, b := range fn.Blocks {
					for _, ins := range b.Instrs {
						if a, ok := ins.(*ssa.Alloc); ok && a.Heap {
							add(a)
						}
					}
				}
				if len(parts) > 0 {
					fmt.Printf("%s:%d: locals %s\n", fc.File, fc.Line, strings.Join(parts, "; "))
				}
			}
			if len(fc.Params) > 0 || len(fn.Params) == 0 {
				continue
			}
			fmt.Printf("%s:%d: params %s\n", fc.File, fc.Line, strings.Join(paramNames(fn.Signature, nil), ", "))
		}
	}
	return 0
}

// unexportedFunc: the function named by a contract key ("f", "T.m", "F$1") is an unexported top-level function or method.
func unexportedFunc(key string) bool {
	if strings.Contains(key, "$") {
		return false
	}
	name := key
	if i := strings.LastIndex(key, "."); i >= 0 {
		name = key[i+1:]
	}
	return name != "" && name[0] >= 'a' && name[0] <= 'z'
}
