package main

import (
	"fmt"
	"go/types"
	"sort"
	"strings"

	"golang.org/x/tools/go/ssa"
)

// frameInvApplies: the implicit loop invariant "only what the modifies clause of the function under contract allows has
// changed since the function was entered" is used for the loops of that function and for the loops of helpers without a
// contract that are inlined into it (their effects are effects of the function).
func (fr *Frame) frameInvApplies() bool {
	r := fr.run
	return (fr.top || fr.contract == nil) && r.contract != nil && r.entryEnv != nil
}

func (fr *Frame) loopSpec(li *loopInfo) *LoopSpec {
	if fr.run.loopRemap != nil && (fr.top || fr.contract == nil) {
		return fr.run.loopRemap[li.header]
	}
	if fr.contract == nil {
		return nil
	}
	return fr.contract.Loops[li.ord]
}

func (fr *Frame) loopEnv(li *loopInfo, st *State) *SpecEnv {
	r := fr.run
	env := &SpecEnv{run: r, pkg: fr.fn.Pkg.Pkg, cur: st, old: fr.entry, loopPre: fr.loopPre[li.header], vars: fr.paramSVs(), frame: fr, fc: fr.contract, loop: li}
	if r.loopRemap != nil && !fr.top && r.entryEnv != nil {
		// loop clauses written for the function under contract, now sitting on a loop of an inlined helper (remap.go): names the
		// helper does not have denote the function's parameters, and old() is the function's entry state
		vars := map[string]SV{}
		for k, v := range r.entryEnv.vars {
			vars[k] = v
		}
		for k, v := range fr.paramSVs() {
			vars[k] = v
		}
		env.vars = vars
		env.old = r.entryState
		env.pkg = r.top.Pkg.Pkg
		env.fc = r.contract
	}
	// range-over-map loop: expose the visited set
	find := func(l *loopInfo) {
		for _, ins := range l.header.Instrs {
			if nx, ok := ins.(*ssa.Next); ok {
				if _, ok := fr.mapIters[nx.Iter]; ok && env.iterKey == "" {
					env.iterKey = fr.iterKey(nx.Iter)
				}
			}
		}
	}
	find(li)
	if env.iterKey == "" {
		// a loop nested in a range-over-map loop sees the enclosing loop's visited set (innermost enclosing first)
		var encl []*loopInfo
		for _, l := range fr.loops {
			if l != li && l.blocks[li.header] {
				encl = append(encl, l)
			}
		}
		sort.Slice(encl, func(i, j int) bool { return len(encl[i].blocks) < len(encl[j].blocks) })
		for _, l := range encl {
			find(l)
		}
	}
	return env
}

func (fr *Frame) paramSVs() map[string]SV {
	if fr.params != nil {
		return fr.params
	}
	m := map[string]SV{}
	for i, p := range fr.fn.Params {
		sv := fr.argSV(fr.vals[p], p.Type())
		m[p.Name()] = sv
		m[fmt.Sprintf("arg%d", i)] = sv
	}
	// names pinned by the contract's `params` clause (positional), as in verifyTop
	if fr.fn == fr.run.top && fr.run.contract != nil {
		for i, p := range fr.fn.Params {
			if i < len(fr.run.contract.Params) {
				m[fr.run.contract.Params[i]] = fr.argSV(fr.vals[p], p.Type())
			}
		}
	}
	for _, fv := range fr.fn.FreeVars {
		// free variables are pointers to the captured cells: name denotes the cell's content
		v := fr.vals[fv]
		if t, ok := v.(Term); ok {
			T := deref(fv.Type())
			m["&"+fv.Name()] = SV{t: t, T: fv.Type()}
			_ = T
		}
	}
	fr.params = m
	return m
}

// localByName resolves a local of the frame by the name the contract uses for it. An alias (rebind.go) may carry an
// offset: "i-1" stands for the hidden index of a range loop that became an index loop, "rangeindex+1" for the reverse.
func (fr *Frame) localByName(st *State, name string) (SV, bool) {
	return fr.localByNameIn(st, name, nil)
}

// rangeIndexOf: the hidden index variable of the range loop li (nil when li is not a range-over-slice loop): the
// `rangeindex` cell that is written inside the loop and initialised outside it.
func (fr *Frame) rangeIndexOf(li *loopInfo) *ssa.Alloc {
	in, out := map[*ssa.Alloc]bool{}, map[*ssa.Alloc]bool{}
	for _, b := range fr.fn.Blocks {
		for _, ins := range b.Instrs {
			s, ok := ins.(*ssa.Store)
			if !ok {
				continue
			}
			a, ok := s.Addr.(*ssa.Alloc)
			if !ok || a.Comment != "rangeindex" {
				continue
			}
			if li.blocks[b] {
				in[a] = true
			} else {
				out[a] = true
			}
		}
	}
	var found *ssa.Alloc
	for a := range in {
		if out[a] {
			if found != nil {
				return nil // ambiguous: fall back to the name-based lookup
			}
			found = a
		}
	}
	return found
}

func (fr *Frame) localByNameIn(st *State, name string, li *loopInfo) (SV, bool) {
	if name == "rangeindex" && li != nil {
		hasAny := false
		for _, a := range fr.fn.Locals {
			if a.Comment == "rangeindex" {
				hasAny = true
			}
		}
		_, aliased := fr.run.localAlias[name]
		aliased = aliased && fr.fn == fr.run.top
		a := fr.rangeIndexOf(li)
		if a == nil {
			// not a range-over-slice loop itself (e.g. a range over a map nested in one): the innermost enclosing loop's index
			var encl []*loopInfo
			for _, l := range fr.loops {
				if l != li && l.blocks[li.header] {
					encl = append(encl, l)
				}
			}
			sort.Slice(encl, func(i, j int) bool { return len(encl[i].blocks) < len(encl[j].blocks) })
			for _, l := range encl {
				if a = fr.rangeIndexOf(l); a != nil {
					break
				}
			}
		}
		if a != nil {
			// a range loop: its own hidden index, whatever an alias says about other loops of the function
			if t, ok := st.locals[a]; ok {
				return SV{t: t, T: deref(a.Type())}, true
			}
		} else if hasAny && !aliased {
			// the function has range loops, but this loop is not one of them (any more): do not pick up another loop's index
			return SV{}, false
		}
	}
	off := 0
	if fr.fn == fr.run.top {
		if a, ok := fr.run.localAlias[name]; ok {
			switch {
			case strings.HasSuffix(a, "-1"):
				off, a = -1, strings.TrimSuffix(a, "-1")
			case strings.HasSuffix(a, "+1"):
				off, a = 1, strings.TrimSuffix(a, "+1")
			}
			name = a
		}
	}
	sv, ok := fr.localByName0(st, name)
	if ok && off != 0 {
		sv.t = app("Int", "+", sv.t, intLit(int64(off)))
	}
	return sv, ok
}

func (fr *Frame) localByName0(st *State, name string) (SV, bool) {
	r := fr.run
	var found *ssa.Alloc
	for _, a := range fr.fn.Locals {
		if a.Comment == name {
			if _, ok := st.locals[a]; ok {
				found = a
			}
		}
	}
	if found != nil {
		T := deref(found.Type())
		return SV{t: st.locals[found], T: T}, true
	}
	// escaping locals (captured by closures / address taken): content lives in the heap
	for _, b := range fr.fn.Blocks {
		for _, ins := range b.Instrs {
			if a, ok := ins.(*ssa.Alloc); ok && a.Heap && a.Comment == name {
				if v, ok := fr.vals[a]; ok {
					T := deref(a.Type())
					return SV{t: sel(r.heapGet(st, r.eng.heapKeyObj(T)), v.(Term)), T: T}, true
				}
			}
		}
	}
	// captured variables of a closure body
	for _, fv := range fr.fn.FreeVars {
		if fv.Name() == name {
			if t, ok := fr.vals[fv].(Term); ok {
				T := deref(fv.Type())
				return SV{t: sel(r.heapGet(st, r.eng.heapKeyObj(T)), t), T: T}, true
			}
		}
	}
	return SV{}, false
}

// probeLoop dry-runs the loop body to find what it modifies.
func (fr *Frame) probeLoop(li *loopInfo, cur *State) (locals []*ssa.Alloc, keys []string) {
	r := fr.run
	// save
	nLines, nObls, ctr := len(r.lines), len(r.obls), r.ctr
	savedVals := make(map[ssa.Value]Val, len(fr.vals))
	for k, v := range fr.vals {
		savedVals[k] = v
	}
	savedEdges := make(map[[2]int]*State, len(fr.edges))
	for k, v := range fr.edges {
		savedEdges[k] = v
	}
	savedRets, savedDefers := fr.rets, fr.defers
	savedDeclared := map[string]bool{}
	for k, v := range r.declared {
		savedDeclared[k] = v
	}
	savedSafety := map[string]int{}
	for k, v := range r.safetyN {
		savedSafety[k] = v
	}
	savedCallN, savedQ := r.callN, r.qctr
	savedPure := map[string]*pureInst{}
	for k, v := range r.pureInsts {
		savedPure[k] = v
	}
	savedAx := map[string]bool{}
	for k, v := range r.axiomsDone {
		savedAx[k] = v
	}
	savedAxUsed := len(r.axiomsUsed)
	prevWrites, prevCtr0 := r.writes, r.probeCtr0
	r.writes = map[string][]string{}
	r.probeCtr0 = r.ctr
	r.probing++
	prevSink, prevHeader := fr.probeSink, fr.probeHeader
	modL := map[*ssa.Alloc]bool{}
	modK := map[string]bool{}
	fr.probeSink = func(st *State) {
		for a, t := range st.locals {
			if old, ok := cur.locals[a]; ok && old.S != t.S {
				modL[a] = true
			}
		}
		for k, t := range st.heaps {
			if old := r.heapGet(cur, k); old.S != t.S {
				modK[k] = true
			}
		}
	}
	fr.probeHeader = li.header
	func() {
		defer func() {
			// restore
			r.probing--
			fr.probeSink = prevSink
			fr.probeHeader = prevHeader
			r.lines = r.lines[:nLines]
			r.obls = r.obls[:nObls]
			r.ctr = ctr
			fr.vals = savedVals
			fr.edges = savedEdges
			fr.rets, fr.defers = savedRets, savedDefers
			r.declared = savedDeclared
			r.safetyN = savedSafety
			r.callN, r.qctr = savedCallN, savedQ
			r.pureInsts = savedPure
			r.axiomsDone = savedAx
			r.axiomsUsed = r.axiomsUsed[:savedAxUsed]
		}()
		// execute the loop's blocks in topological order
		order := fr.blockOrder()
		start := cur.clone()
		for _, b := range order {
			if !li.blocks[b] {
				continue
			}
			var st *State
			if b == li.header {
				st = start
			} else {
				var incoming []*State
				for _, p := range b.Preds {
					if isBackEdge(p, b) || !li.blocks[p] {
						continue
					}
					if es, ok := fr.edges[[2]int{p.Index, b.Index}]; ok {
						incoming = append(incoming, es)
					}
				}
				if len(incoming) == 0 {
					continue
				}
				st = r.merge(incoming)
				if inner, ok := fr.loops[b]; ok {
					st = fr.enterLoop(inner, st)
				}
			}
			fr.execBlock(b, st)
		}
	}()
	// which heaps were only written at objects allocated inside the loop body
	li.writesSeen = map[string][]string{}
	for k, ws := range r.writes {
		li.writesSeen[k] = append([]string{}, ws...)
	}
	li.probeCtr0 = r.probeCtr0
	li.freshOnly = map[string]bool{}
	for k := range modK {
		ws, seen := r.writes[k]
		fresh := seen
		for _, w := range ws {
			if !r.isFreshRef(w) {
				fresh = false
			}
		}
		li.freshOnly[k] = fresh
	}
	if prevWrites != nil {
		for k, ws := range r.writes {
			prevWrites[k] = append(prevWrites[k], ws...)
		}
	}
	r.writes, r.probeCtr0 = prevWrites, prevCtr0
	for a := range modL {
		locals = append(locals, a)
	}
	sort.Slice(locals, func(i, j int) bool { return locals[i].Pos() < locals[j].Pos() })
	for k := range modK {
		keys = append(keys, k)
	}
	sort.Strings(keys)
	return
}

func (fr *Frame) enterLoop(li *loopInfo, cur *State) *State {
	r := fr.run
	spec := fr.loopSpec(li)
	if spec == nil {
		// no invariant written for this loop (typically a loop in a helper without a contract that is inlined here): it is
		// cut with the invariant `true` plus the automatic parts (frame inference, accumulator ownership). That is sound;
		// if the proof needs more about the loop, the obligation that needs it fails.
		spec = &LoopSpec{}
	}
	fr.loopPre[li.header] = cur.clone()
	locals, keys := fr.probeLoop(li, cur)
	name := r.funcLabel()
	if !fr.top {
		name += "@" + relName(fr.fn)
	}
	if r.probing == 0 && spec != nil {
		env := fr.loopEnv(li, cur)
		for _, inv := range spec.Invariants {
			g := r.evalBool(env, inv)
			r.oblige(cur, "loop-init", fmt.Sprintf("%s#loop%d:init:%s", name, li.ord, inv.Label), mergeTags(inv.Tags, fr.safetyTags()), g, inv.Src, true, li.header.Instrs[0].Pos())
		}
	}
	if r.probing == 0 && fr.frameInvApplies() {
		// init case of the implicit frame invariant
		items := r.topFrameItems(r.entryEnv, r.entryState)
		for _, k := range keys {
			if frameKeySkipped(k) || li.freshOnly[k] || !(strings.HasPrefix(k, "H|") || strings.HasPrefix(k, "A|") || strings.HasPrefix(k, "M")) {
				continue
			}
			if r.heapGet(r.entryState, k).S == r.heapGet(cur, k).S {
				continue
			}
			x := r.havoc("fx", "Int")
			if g, ok := r.frameGoal(items, r.entryState, cur, k, x); ok {
				r.oblige(cur, "loop-frame", fmt.Sprintf("%s#loop%d:init:frame:%s", name, li.ord, r.eng.heapDecls[k].name), fr.safetyTags(), g, "code before the loop changes only what the modifies clause allows", true, li.header.Instrs[0].Pos())
			}
		}
	}
	st := cur.clone()
	for _, a := range locals {
		T := deref(a.Type())
		t := r.havoc("lh_"+mangle(a.Comment), r.eng.u.sortOf(T))
		st.locals[a] = t
		r.knownFacts(st, t, T)
	}
	for _, k := range keys {
		d := r.eng.heapDecls[k]
		old := r.heapGet(st, k)
		t := r.havoc(d.name, d.sort)
		st.heaps[k] = t
		if k == "alloc" {
			r.assume(st, app("Bool", ">=", t, old))
		}
	}
	for _, k := range keys {
		r.assumeHeapWF(st, k)
	}
	li.modLocals, li.modKeys = locals, keys
	li.autoFramed = map[string]bool{}
	li.accOwn = nil
	li.accGet = nil
	// automatic invariant for append accumulators that start nil or on an array allocated by this function:
	// their backing array stays an allocation of this function (so in-place appends cannot touch the caller's arrays)
	li.ownedAcc = nil
	if r.entryState != nil {
		wmE := r.heapGet(r.entryState, r.eng.heapKeyAlloc())
		wmPre := r.heapGet(cur, r.eng.heapKeyAlloc())
		type cand struct {
			a      *ssa.Alloc
			get    func(*State) (Term, bool)
			origin string
		}
		var cands []cand
		for _, a := range locals {
			a := a
			if _, ok := types.Unalias(deref(a.Type())).Underlying().(*types.Slice); !ok {
				continue
			}
			pre, ok := cur.locals[a]
			if !ok {
				continue
			}
			o, owned := r.sliceArr[pre.S]
			if pre.S == "slice_nil" {
				o, owned = "new_own", true
			}
			if owned {
				cands = append(cands, cand{a, func(s *State) (Term, bool) { t, ok := s.locals[a]; return t, ok }, o})
			}
		}
		// captured (heap-allocated) slice variables
		for a, o := range r.cellOrigin {
			a := a
			if a.Parent() != fr.fn {
				continue
			}
			ref, ok := fr.vals[a].(Term)
			if !ok {
				continue
			}
			T := deref(a.Type())
			if _, ok := types.Unalias(T).Underlying().(*types.Slice); !ok {
				continue
			}
			key := r.eng.heapKeyObj(T)
			cands = append(cands, cand{a, func(s *State) (Term, bool) { return sel(r.heapGet(s, key), ref), true }, o})
		}
		sort.Slice(cands, func(i, j int) bool { return cands[i].a.Pos() < cands[j].a.Pos() })
		for _, c := range cands {
			if !onlyAppendedTo(c.a, li) {
				continue
			}
			pre, _ := c.get(cur)
			origin := c.origin
			li.ownedAcc = append(li.ownedAcc, c.a)
			if li.accOrigin == nil {
				li.accOrigin = map[*ssa.Alloc]string{}
			}
			li.accOrigin[c.a] = origin
			li.accGet = append(li.accGet, c.get)
			weakOnly := strings.HasPrefix(origin, "weak:")
			own := func(v Term) Term {
				arr := app("Int", "sl_arr", v)
				if weakOnly {
					// the accumulator went through an earlier loop: only "allocated by this function" is kept
					return or(eq(arr, intLit(0)), app("Bool", ">", arr, wmE))
				}
				inLoop := app("Bool", ">", arr, wmPre)
				if strings.HasPrefix(origin, "new_") && origin != "new_own" {
					inLoop = or(eq(arr, Term{origin, "Int"}), inLoop)
				}
				return or(eq(arr, intLit(0)), and(app("Bool", ">", arr, wmE), inLoop))
			}
			li.accOwn = append(li.accOwn, own)
			if r.probing == 0 {
				r.oblige(cur, "loop-init", fmt.Sprintf("%s#loop%d:init:auto-owned:%s", name, li.ord, c.a.Comment), fr.safetyTags(), own(pre), "append accumulator starts on an array allocated by this function", true, li.header.Instrs[0].Pos())
			}
			if v, ok := c.get(st); ok {
				r.assume(st, own(v))
				// later loops still recognise the accumulator (weak form: some allocation of this function)
				if c.a.Heap {
					r.cellOrigin[c.a] = "weak:" + strings.TrimPrefix(origin, "weak:")
				} else {
					r.recordSliceTag(v, "weak:"+strings.TrimPrefix(origin, "weak:"))
				}
			}
		}
	}
	// relative accumulator invariant (semantic, needs no syntactic ownership): a slice local that the loop only ever
	// re-assigns with `a = append(a, ...)` keeps its backing array or moves to an array allocated during the loop
	li.accRel = nil
	li.accRelGet = nil
	li.accRelName = nil
	{
		wmPre := r.heapGet(cur, r.eng.heapKeyAlloc())
		for _, a := range locals {
			a := a
			if _, ok := types.Unalias(deref(a.Type())).Underlying().(*types.Slice); !ok {
				continue
			}
			pre, ok := cur.locals[a]
			if !ok || !onlyAppendedTo(a, li) {
				continue
			}
			preArr := r.def("accpre", app("Int", "sl_arr", pre))
			rel := func(v Term) Term {
				arr := app("Int", "sl_arr", v)
				return or(eq(arr, preArr), app("Bool", ">", arr, wmPre))
			}
			li.accRel = append(li.accRel, rel)
			li.accRelGet = append(li.accRelGet, func(s *State) (Term, bool) { t, ok := s.locals[a]; return t, ok })
			li.accRelName = append(li.accRelName, a.Comment)
			if v, ok := st.locals[a]; ok {
				r.assume(st, rel(v))
			}
		}
	}
	// automatic loop frames
	for _, k := range keys {
		if frameKeySkipped(k) || !(strings.HasPrefix(k, "H|") || strings.HasPrefix(k, "A|") || strings.HasPrefix(k, "M")) {
			continue
		}
		if li.freshOnly[k] || li.accOnlyKey(r, k) {
			// every write in the body targets an object allocated in the body (or the array of an owned append
			// accumulator): older objects are untouched
			wmPre := r.heapGet(cur, r.eng.heapKeyAlloc())
			H0, H1 := r.heapGet(cur, k), r.heapGet(st, k)
			excl := ""
			if !li.freshOnly[k] {
				for _, a := range li.ownedAcc {
					if o := li.accOrigin[a]; strings.HasPrefix(o, "new_") && o != "new_own" {
						excl += fmt.Sprintf(" (not (= fx %s))", o)
					}
				}
			}
			r.assume(st, Term{fmt.Sprintf("(forall ((fx Int)) (! (=> (and (<= fx %s)%s) (= (select %s fx) (select %s fx))) :pattern ((select %s fx))))", wmPre.S, excl, H1.S, H0.S, H1.S), "Bool"})
			li.autoFramed[k] = true
			continue
		}
		if fr.frameInvApplies() {
			// the loop may only change what the function's modifies clause allows (checked at every back edge)
			items := r.topFrameItems(r.entryEnv, r.entryState)
			if g, ok := r.frameGoal(items, r.entryState, st, k, Term{"fx", "Int"}); ok {
				r.assume(st, Term{fmt.Sprintf("(forall ((fx Int)) (! %s :pattern ((select %s fx))))", g.S, r.heapGet(st, k).S), "Bool"})
			}
		}
	}
	if spec != nil {
		env := fr.loopEnv(li, st)
		for _, inv := range spec.Invariants {
			r.assume(st, r.evalBool(env, inv))
		}
		if spec.Decreases != nil && r.probing == 0 {
			sv := r.eval(env, spec.Decreases.E)
			li.decHead = r.def("dec", sv.t)
		}
	}
	return st
}

func (fr *Frame) checkLoopStep(li *loopInfo, st *State) {
	r := fr.run
	if r.probing > 0 {
		if fr.probeHeader == li.header && fr.probeSink != nil {
			fr.probeSink(st)
		}
		return
	}
	spec := fr.loopSpec(li)
	if spec == nil {
		spec = &LoopSpec{} // invariant `true`; the implicit frame invariant below is still proved
	}
	name := r.funcLabel()
	if !fr.top {
		name += "@" + relName(fr.fn)
	}
	env := fr.loopEnv(li, st)
	li.nBack++
	stepName := "step"
	if li.nBack > 1 {
		stepName = fmt.Sprintf("step%d", li.nBack)
	}
	for _, inv := range spec.Invariants {
		g := r.evalBool(env, inv)
		r.oblige(st, "loop-step", fmt.Sprintf("%s#loop%d:%s:%s", name, li.ord, stepName, inv.Label), mergeTags(inv.Tags, fr.safetyTags()), g, inv.Src, true, li.header.Instrs[0].Pos())
	}
	if r.entryState != nil {
		wmE := r.heapGet(r.entryState, r.eng.heapKeyAlloc())
		_ = wmE
		for i, a := range li.ownedAcc {
			v, ok := li.accGet[i](st)
			if !ok {
				continue
			}
			g := li.accOwn[i](v)
			r.oblige(st, "loop-step", fmt.Sprintf("%s#loop%d:%s:auto-owned:%s", name, li.ord, stepName, a.Comment), fr.safetyTags(), g, "append accumulator stays on an array allocated by this function", true, li.header.Instrs[0].Pos())
		}
	}
	for i, rel := range li.accRel {
		if v, ok := li.accRelGet[i](st); ok {
			r.oblige(st, "loop-step", fmt.Sprintf("%s#loop%d:%s:auto-acc:%s", name, li.ord, stepName, li.accRelName[i]), fr.safetyTags(), rel(v), "append accumulator keeps its array or moves to one allocated during the loop", true, li.header.Instrs[0].Pos())
		}
	}
	// implicit frame invariant (see enterLoop)
	if fr.frameInvApplies() {
		items := r.topFrameItems(r.entryEnv, r.entryState)
		for _, k := range li.modKeys {
			if frameKeySkipped(k) || li.freshOnly[k] || li.autoFramed[k] || !(strings.HasPrefix(k, "H|") || strings.HasPrefix(k, "A|") || strings.HasPrefix(k, "M")) {
				continue
			}
			x := r.havoc("fx", "Int")
			if g, ok := r.frameGoal(items, r.entryState, st, k, x); ok {
				r.oblige(st, "loop-frame", fmt.Sprintf("%s#loop%d:%s:frame:%s", name, li.ord, stepName, r.eng.heapDecls[k].name), fr.safetyTags(), g, "loop body changes only what the modifies clause allows", true, li.header.Instrs[0].Pos())
			}
		}
	}
	if spec.Decreases != nil {
		sv := r.eval(env, spec.Decreases.E)
		g := and(app("Bool", "<=", intLit(0), li.decHead), app("Bool", "<", sv.t, li.decHead))
		r.oblige(st, "decreases", fmt.Sprintf("%s#loop%d:%s:decreases", name, li.ord, stepName), mergeTags(spec.Decreases.Tags, fr.safetyTags()), g, spec.Decreases.Src, true, li.header.Instrs[0].Pos())
	}
}

var _ = types.Typ

// onlyAppendedTo: every store to local a inside the loop is `a = append(a, ...)`.
func onlyAppendedTo(a *ssa.Alloc, li *loopInfo) bool {
	n := 0
	for b := range li.blocks {
		for _, ins := range b.Instrs {
			st, ok := ins.(*ssa.Store)
			if !ok || st.Addr != ssa.Value(a) {
				continue
			}
			n++
			call, ok := st.Val.(*ssa.Call)
			if !ok {
				return false
			}
			bi, ok := call.Call.Value.(*ssa.Builtin)
			if !ok || bi.Name() != "append" {
				return false
			}
			ld, ok := call.Call.Args[0].(*ssa.UnOp)
			if !ok || ld.X != ssa.Value(a) {
				return false
			}
		}
	}
	return n > 0
}

// accOnlyKey: every non-fresh write to heap key k in the loop body goes to the backing array of an owned append accumulator.
func (li *loopInfo) accOnlyKey(r *Run, k string) bool {
	ws := li.writesSeen[k]
	if len(ws) == 0 || len(li.ownedAcc) == 0 {
		return false
	}
	for _, w := range ws {
		if r.isFreshRefSince(w, li.probeCtr0) {
			continue
		}
		ok := false
		for _, a := range li.ownedAcc {
			o := li.accOrigin[a]
			if o != "" && w == o && !strings.HasPrefix(o, "weak:") {
				ok = true
			}
		}
		if !ok {
			return false
		}
	}
	return true
}
